#!/bin/bash
# setup_cmd: install icontract + deal beside the framework from the offline wheelhouse.
# Idempotent; ./check runs it too when .deps is missing.
set -e
cd "$(dirname "$0")"
if [ ! -d .deps/icontract ] || [ ! -d .deps/deal ]; then
  rm -rf .deps
  PIP_NO_INDEX=1 /venv/bin/pip install -q --no-index --find-links /opt/veriftools/wheels \
     --target .deps icontract deal >/dev/null 2>&1 || {
       echo "setup: pip install of icontract/deal failed" >&2; exit 1; }
fi
mkdir -p evidence replays .work
echo "setup ok"
