"""C09 - inserting or removing markup never alters the paragraph text around it.

Monitor shape: invariant around each markup operation: the O-TEXT reading of the paragraph
before and after must agree (new opaque marks contribute nothing), every pre-existing element
must survive, the new wrapper must hold exactly what the regular expression matched in that
text node / what the text-node offsets designate; a failing address leaves the XML
byte-identical."""

import re

from lxml import etree

from ..oracles import odftext

LEVEL = "exploration"
RULE = (
    "Paragraphs/headings assembled from raw XML pieces {words from a small vocabulary with repeats, text:s, "
    "text:tab, text:line-break, span (with text / nested / empty with a tail), link (also empty), bookmark, "
    "reference mark, note}; then 1-4 insertions of mixed kinds: set_span / set_link by regex (literal, class, "
    "repetition, alternation, ^/$ anchored, with a space, zero-width look-ahead, no match) or by offset/length "
    "(node boundaries, 0, end, beyond; length 0, short, longer than the node), set_bookmark (position int / "
    "(int,int) / before / after / content / role), set_reference_mark (position / before / after / content), "
    "insert_note(after=), insert_annotation (before / after / position / content), the index of the match to "
    "use being 0, 1, 2 or -1 (the last); set_reference_mark_end / insert_annotation_end moving or creating the "
    "end of an existing mark (before / after / position); then removals: "
    "remove_spans, remove_links, remove_span(el), remove_link(el), delete of an inline element or mark. One "
    "evaluation = one operation judged. Class = (operation, address kind, where the address falls relative to "
    "the node layout: in text / in tail / inside span / at node start / at node end / no match / beyond, "
    "number of earlier insertions, outcome)."
)
SHARDS = {"quick": 16, "thorough": 16}
TIMEOUT = {"quick": 400, "thorough": 7200}
MIN_EVALS = {"quick": 60000, "thorough": 900000}
CASES = {"quick": 2500, "thorough": 400000}
ASSUMPTIONS = [
    "offsets are odfdo's documented text-node offsets (concatenation of descendant text nodes); regex matches do not span text nodes (documented)",
    "readable text = vf/oracles/odftext.py projection with notes/annotations/frames opaque",
]
REACH = [
    ("odfdo.paragraph", "Paragraph.set_span", True),
    ("odfdo.paragraph", "Paragraph.set_link", True),
    ("odfdo.paragraph", "Paragraph.set_bookmark", True),
    ("odfdo.paragraph", "Paragraph.set_reference_mark", True),
    ("odfdo.paragraph", "Paragraph.insert_note", True),
    ("odfdo.paragraph", "Paragraph.insert_annotation", True),
    ("odfdo.element", "Element._insert", True),
    ("odfdo.element", "Element._insert_before_after", True),
    ("odfdo.element", "Element._insert_find_text", True),
    ("odfdo.element", "Element.delete", True),
    ("odfdo.element", "Element._strip_tags", True),
    ("odfdo.element", "Element.strip_elements", True),
]

NS = 'xmlns:text="urn:oasis:names:tc:opendocument:xmlns:text:1.0" xmlns:office="urn:oasis:names:tc:opendocument:xmlns:office:1.0" xmlns:xlink="http://www.w3.org/1999/xlink" xmlns:dc="http://purl.org/dc/elements/1.1/"'
WORDS = ["alpha", "beta", "gamma", "ab", "abab", "a", "b", "delta"]
REGEXES = [("literal", "beta"), ("class", "[ab]+"), ("repeat", "a+"), ("alt", "alpha|gamma"), ("anchor^", "^alpha"), ("anchor$", "gamma$"), ("space", "a b"), ("literal2", "ab"), ("nomatch", "zzz"), ("ahead", r"beta(?= \w)"), ("behind", r"(?<=a )b\w*"), ("boundary", r"\bab\b"), ("lookahead", "(?=beta)"), ("word", r"\w+")]
TX = odftext.TX
OF = "{%s}" % odftext.OFFICE


def gen_pieces(rng):
    n = rng.randint(1, 6)
    out = []
    for _ in range(n):
        k = rng.choice(["w", "w", "w", "ws", "s", "tab", "lb", "span", "span", "nested", "emptyspan", "link", "emptylink", "bm", "rm", "note"])
        out.append((k, [rng.choice(WORDS) for _ in range(rng.randint(1, 3))]))
    return out


def pieces_xml(pieces, heading=False):
    """Assemble the paragraph in white-space normal form: single spaces only between two
    non-space characters, none at the edges of the paragraph."""
    parts = []
    for i, (k, ws) in enumerate(pieces):
        t = " ".join(ws)
        if k == "w":
            parts.append(("txt", t))
        elif k == "ws":
            parts.append(("sp", " "))
            parts.append(("txt", t))
        elif k == "s":
            parts.append(("el", '<text:s text:c="2"/>'))
        elif k == "tab":
            parts.append(("el", "<text:tab/>"))
        elif k == "lb":
            parts.append(("el", "<text:line-break/>"))
        elif k == "span":
            parts.append(("txt", f'<text:span text:style-name="T{i}">{t}</text:span>'))
        elif k == "nested":
            parts.append(("txt", f'<text:span text:style-name="T{i}">{ws[0]} <text:span text:style-name="U{i}">{t}</text:span> {ws[-1]}</text:span>'))
        elif k == "emptyspan":
            parts.append(("mark", f'<text:span text:style-name="E{i}"/>'))
            parts.append(("txt", t))
        elif k == "link":
            parts.append(("txt", f'<text:a xlink:href="http://x/{i}">{t}</text:a>'))
            parts.append(("sp", " "))
        elif k == "emptylink":
            parts.append(("mark", f'<text:a xlink:href="http://e/{i}"/>'))
            parts.append(("txt", t))
        elif k == "bm":
            parts.append(("mark", f'<text:bookmark text:name="bm{i}"/>'))
        elif k == "rm":
            parts.append(("mark", f'<text:reference-mark text:name="rm{i}"/>'))
        elif k == "note":
            parts.append(("mark", f'<text:note text:id="n{i}" text:note-class="footnote"><text:note-citation>{i}</text:note-citation><text:note-body><text:p>note {t}</text:p></text:note-body></text:note>'))
    # keep a separator space only between two text-like neighbours (marks are transparent)
    out = []
    prev_text = False
    pending_space = False
    for kind, x in parts:
        if kind == "sp":
            pending_space = prev_text
        elif kind == "txt":
            if pending_space or (prev_text and out and not out[-1].endswith(">")):
                out.append(" ")
            out.append(x)
            prev_text = True
            pending_space = False
        elif kind == "el":
            out.append(x)
            prev_text = False
            pending_space = False
        else:
            out.append(x)
    tag = "text:h" if heading else "text:p"
    extra = ' text:outline-level="1"' if heading else ""
    return f"<{tag} {NS}{extra}>{''.join(out)}</{tag}>"


def node(el):
    return el._Element__element


def text_nodes(n):
    """[(string, owner, is_text)] of descendant::text() in document order (lxml directly)."""
    out = []

    def walk(e):
        if e.text:
            out.append((e.text, e, True))
        for ch in e:
            if isinstance(ch.tag, str):
                walk(ch)
            if ch.tail:
                out.append((ch.tail, ch, False))

    walk(n)
    return out


def t_before(root, target):
    """Number of characters of text nodes preceding `target` element in document order."""
    count = 0
    found = [None]

    def walk(e):
        nonlocal count
        if e.text:
            count += len(e.text)
        for ch in e:
            if ch is target:
                found[0] = count
                return True
            if isinstance(ch.tag, str) and walk(ch):
                return True
            if ch.tail:
                count += len(ch.tail)
        return False

    walk(root)
    return found[0]


def t_before_skipping(root, target, skip_ids):
    """Like t_before, but text inside the elements of skip_ids (new opaque marks) does not count."""
    count = 0
    found = [None]

    def walk(e, counting):
        nonlocal count
        if e.text and counting:
            count += len(e.text)
        for ch in e:
            if ch is target:
                found[0] = count
                return True
            if isinstance(ch.tag, str) and walk(ch, counting and id(ch) not in skip_ids):
                return True
            if ch.tail and counting:
                count += len(ch.tail)
        return False

    walk(root, True)
    return found[0]


def in_annotation(owner, is_text):
    """The text node lies inside an office:annotation (marks are addressed in the main text only)."""
    e = owner if is_text else owner.getparent()
    while e is not None:
        if isinstance(e.tag, str) and e.tag == OF + "annotation":
            return True
        e = e.getparent()
    return False


def main_matches(tn, rx):
    """[(start, end)] of the matches of rx in each main-text node, in main-text coordinates."""
    ms = []
    pos = 0
    for s_, owner, is_text in tn:
        if in_annotation(owner, is_text):
            continue
        ms += [(pos + m.start(), pos + m.end()) for m in rx.finditer(s_)]
        pos += len(s_)
    return ms


def where(tn, offset):
    """Situation of an offset in the text-node layout."""
    pos = 0
    for s, owner, is_text in tn:
        if pos <= offset < pos + len(s):
            loc = "in-text" if is_text else "in-tail"
            if is_text and owner.tag in (TX + "span", TX + "a"):
                loc = "inside-span"
            if offset == pos:
                loc += "@node-start"
            elif offset == pos + len(s) - 1:
                loc += "@node-end"
            return loc
        pos += len(s)
    return "at-end" if offset == pos else "beyond"


def snapshot(p):
    n = node(p)
    return {
        "xml": etree.tostring(n, encoding="unicode", with_tail=False),
        "R": odftext.project(n),
        "old": [e for e in n.iter() if isinstance(e.tag, str) and e is not n],
        "oldsig": [(e.tag, tuple(sorted(e.attrib.items()))) for e in n.iter() if isinstance(e.tag, str) and e is not n],
        "tn": text_nodes(n),
    }


def gen_op(rng, snap, k):
    if rng.random() < 0.15:
        mv = gen_move_end(rng, snap, k)
        if mv is not None:
            return mv
    T = "".join(s for s, _o, _t in snap["tn"])
    name = rng.choice(["set_span", "set_span", "set_link", "set_bookmark", "set_reference_mark", "insert_note", "insert_annotation"])
    op = {"op": name, "k": k}
    if name in ("set_span", "set_link"):
        if rng.random() < 0.5:
            kind, rx = rng.choice(REGEXES)
            op.update(address="regex", regex=rx, rkind=kind)
        else:
            # offsets aimed at node boundaries
            bounds = [0]
            pos = 0
            for s, _o, _t in snap["tn"]:
                bounds += [pos, pos + len(s) - 1, pos + len(s) // 2]
                pos += len(s)
            bounds += [pos, pos + 3]
            off = max(0, rng.choice(bounds))
            op.update(address="offset", offset=off, length=rng.choice([0, 1, 2, 3, 5, 50]))
        return op
    mode = rng.choice(["position", "before", "after", "content"] + (["position2", "role"] if name == "set_bookmark" else []))
    if name == "insert_note":
        mode = rng.choice(["after", "none"])
    kind, rx = rng.choice(REGEXES[:12])
    op.update(address=mode, regex=rx, rkind=kind)
    if mode in ("position", "role"):
        op["position"] = rng.choice([0, 1, len(T) // 2, max(len(T) - 1, 0), len(T)])
        if mode == "role":
            op["role"] = rng.choice(["start", "end"])
    elif mode == "position2":
        a = rng.randint(0, max(len(T) - 1, 0))
        op["position"] = [a, rng.choice([rng.randint(a, len(T)), rng.randint(a, len(T)), len(T) + rng.randint(1, 40)])]
    else:
        op["which"] = rng.choice([0, 0, 1, 2, -1, -1])
    return op


def gen_move_end(rng, snap, k):
    """Move (or create) the end of an existing reference mark / annotation, or None when the paragraph has none."""
    cands = []
    for i, e in enumerate(snap["old"]):
        local = e.tag.rpartition("}")[2]
        if local in ("reference-mark", "reference-mark-start") and e.getparent() is not None:
            cands.append(("set_reference_mark_end", i))
        elif local == "annotation" and e.get(OF + "name"):
            cands.append(("insert_annotation_end", i))
    if not cands:
        return None
    name, idx = rng.choice(cands)
    T = "".join(s for s, _o, _t in snap["tn"])
    op = {"op": name, "k": k, "target": idx}
    mode = rng.choice(["before", "after", "after", "position"])
    kind, rx = rng.choice(REGEXES[:12])
    op.update(address=mode, regex=rx, rkind=kind)
    if mode == "position":
        op["position"] = rng.choice([0, 1, len(T) // 2, max(len(T) - 1, 0), len(T)])
    else:
        op["which"] = rng.choice([0, 0, 1, -1])
    return op


def apply_op(p, op):
    from odfdo import Annotation

    o, k = op["op"], op["k"]
    if o == "set_span":
        if op["address"] == "regex":
            return p.set_span(f"S{k}", regex=op["regex"])
        return p.set_span(f"S{k}", offset=op["offset"], length=op["length"])
    if o == "set_link":
        if op["address"] == "regex":
            return p.set_link(f"http://l/{k}", regex=op["regex"])
        return p.set_link(f"http://l/{k}", offset=op["offset"], length=op["length"])
    a = op["address"]
    kw = {}
    if o in ("set_reference_mark_end", "insert_annotation_end"):
        from odfdo import Element

        olds = [e for e in node(p).iter() if isinstance(e.tag, str) and e is not node(p)]
        target = Element.from_tag(olds[op["target"]])
        if a == "position":
            kw["position"] = op["position"]
        else:
            kw.update({a: op["regex"], "position": op["which"]})
        return getattr(p, o)(target, **kw)
    if a in ("position", "role"):
        kw["position"] = op["position"]
        if a == "role":
            kw["role"] = op["role"]
    elif a == "position2":
        kw["position"] = tuple(op["position"])
    elif a == "before":
        kw.update(before=op["regex"], position=op["which"])
    elif a == "after":
        kw.update(after=op["regex"], position=op["which"])
    elif a == "content":
        kw.update(content=op["regex"], position=op["which"])
    if o == "set_bookmark":
        return p.set_bookmark(f"B{k}", **kw)
    if o == "set_reference_mark":
        kw.pop("role", None)
        return p.set_reference_mark(f"R{k}", **kw)
    if o == "insert_note":
        return p.insert_note(after=op["regex"] if a == "after" else None, note_id=f"N{k}", citation="*", body=f"body {k}")
    if o == "insert_annotation":
        kw.pop("role", None)
        return p.insert_annotation(body=f"ann {k}", creator="vf", **kw)
    raise KeyError(o)


def judge_insertion(p, op, before, exc):
    """-> (list of (mechanism, detail), situation tag, outcome tag)"""
    out = []
    n = node(p)
    xml_after = etree.tostring(n, encoding="unicode", with_tail=False)
    T = "".join(s for s, _o, _t in before["tn"])
    sit = op["address"]
    if op["address"] == "offset":
        sit = "offset:" + where(before["tn"], op["offset"]) + (":len0" if op["length"] == 0 else "")
    elif "regex" in op:
        sit = f"{op['address']}:{op['rkind']}"
    if exc is not None:
        if xml_after != before["xml"]:
            out.append((f"partial-modification-on-exception:{op['op']}", {"exc": repr(exc), "before": before["xml"][-400:], "after": xml_after[-400:]}))
        return out, sit, "raised-unchanged"
    R_after = odftext.project(n)
    if R_after != before["R"]:
        out.append((f"text-changed:{op['op']}", {"before": before["R"], "after": R_after, "xml_before": before["xml"][-500:], "xml_after": xml_after[-500:]}))
        return out, sit, "text-changed"
    # every pre-existing element survives with its attributes
    alive = {id(e) for e in n.iter()}
    lost = [e.tag.rpartition("}")[2] for e in before["old"] if id(e) not in alive]
    moving = op["op"] in ("set_reference_mark_end", "insert_annotation_end")
    if moving:
        # the former end of that very mark is replaced by design
        tgt = before["old"][op["target"]]
        tname = tgt.get(TX + "name") or tgt.get(OF + "name")
        endtag = "reference-mark-end" if op["op"] == "set_reference_mark_end" else "annotation-end"
        former = [e for e in before["old"] if id(e) not in alive and e.tag.rpartition("}")[2] == endtag and (e.get(TX + "name") or e.get(OF + "name")) == tname]
        for e in former[:1]:
            lost.remove(endtag)
    if lost:
        out.append((f"existing-element-lost:{op['op']}", {"lost": lost[:4]}))
    news = [e for e in n.iter() if isinstance(e.tag, str) and e is not n and id(e) not in {id(x) for x in before["old"]}]
    outcome = "changed" if xml_after != before["xml"] else "unchanged"
    if op["op"] in ("set_span", "set_link"):
        tag = TX + ("span" if op["op"] == "set_span" else "a")
        wrappers = [e for e in news if e.tag == tag]
        got = [odftext.project(e) if e.find(TX + "s") is not None or e.find(TX + "tab") is not None or e.find(TX + "line-break") is not None else "".join(e.itertext()) for e in wrappers]
        if op["address"] == "regex":
            rx = re.compile(op["regex"])
            exp = []
            for s, _o, _t in before["tn"]:
                exp += [m.group() for m in rx.finditer(s)]
            if got != exp:
                out.append((f"wrapper-differs-from-regex-matches:{op['op']}", {"regex": op["regex"], "expected": exp, "got": got, "xml_before": before["xml"][-500:], "xml_after": xml_after[-500:]}))
            if not exp:
                outcome = "no-match"
                if xml_after != before["xml"]:
                    out.append((f"no-match-but-changed:{op['op']}", {"regex": op["regex"]}))
        else:
            off, ln = op["offset"], op["length"]
            if off >= len(T):
                outcome = "beyond"
                if xml_after != before["xml"]:
                    out.append((f"offset-beyond-text-but-changed:{op['op']}", {"offset": off, "len_T": len(T)}))
            elif len(wrappers) != 1:
                out.append((f"offset-wrapper-count:{op['op']}", {"offset": off, "length": ln, "wrappers": got}))
            else:
                w = got[0]
                if w != T[off : off + len(w)] or not w or (ln > 0 and len(w) > ln):
                    out.append((f"wrapper-differs-from-offsets:{op['op']}", {"offset": off, "length": ln, "wrapped": w, "designated": T[off : off + (ln or 20)], "xml_after": xml_after[-500:]}))
                # the wrapper starts exactly at the offset
                tb = t_before(n, wrappers[0])
                if tb != off:
                    out.append((f"wrapper-at-wrong-offset:{op['op']}", {"offset": off, "found_at": tb}))
    else:
        # marks: position checks in text-node coordinates
        marks = [e for e in news if e.getparent() is not None and e.tag.rpartition("}")[2] in ("bookmark", "bookmark-start", "bookmark-end", "reference-mark", "reference-mark-start", "reference-mark-end", "note", "annotation", "annotation-end")]
        a = op["address"]
        if moving:
            marks = [e for e in marks if e.tag.rpartition("}")[2] == endtag]
            ends_now = [e for e in n.iter() if isinstance(e.tag, str) and e.tag.rpartition("}")[2] == endtag and (e.get(TX + "name") or e.get(OF + "name")) == tname]
            if len(ends_now) != 1:
                out.append((f"end-mark-count:{op['op']}", {"count": len(ends_now), "xml_after": xml_after[-400:]}))
        if not marks:
            outcome = "no-mark"
        annots = {id(e) for e in n.iter(OF + "annotation")}
        tn_eff = before["tn"]
        if moving and former:
            # the former end is dropped first: the address is resolved in the paragraph without it
            shadow = etree.fromstring(before["xml"])
            olds = [e for e in shadow.iter() if isinstance(e.tag, str) and e is not shadow]
            fe = olds[[id(e) for e in before["old"]].index(id(former[0]))]
            tail, par, prev = fe.tail, fe.getparent(), fe.getprevious()
            par.remove(fe)
            if tail:
                if prev is not None:
                    prev.tail = (prev.tail or "") + tail
                else:
                    par.text = (par.text or "") + tail
            tn_eff = text_nodes(shadow)
        Tm = "".join(s_ for s_, o_, t_ in tn_eff if not in_annotation(o_, t_))
        if a == "position" and marks and op["op"] != "insert_note":
            tb = t_before_skipping(n, marks[0], annots)
            # text inside an annotation or a new opaque mark is not main text: the coordinates exclude it
            if tb is not None and tb != min(op["position"], len(Tm)) and not _inside_new(marks[0], news):
                out.append((f"mark-at-wrong-position:{op['op']}", {"position": op["position"], "found_at": tb, "xml_after": xml_after[-400:]}))
        if a in ("before", "after") and marks:
            rx = re.compile(op["regex"])
            # matches are searched in each main-text node (anchors are relative to the node)
            ms = main_matches(tn_eff, rx)
            tb = t_before_skipping(n, marks[0], annots)
            w = op.get("which", 0) if op["op"] != "insert_note" else 0  # insert_note takes no index
            if ms and tb is not None and not _inside_new(marks[0], news):
                cand = {(m[0] if a == "before" else m[1]) for m in ms}
                if tb not in cand:
                    out.append((f"mark-not-at-a-match:{op['op']}:{a}", {"regex": op["regex"], "at": tb, "match_positions": sorted(cand)[:8], "xml_after": xml_after[-400:]}))
                else:
                    # "the position value is the index of matching place to use", -1 = the last one
                    if w >= len(ms):
                        out.append((f"mark-placed-for-an-index-beyond-the-matches:{op['op']}:{a}", {"regex": op["regex"], "which": w, "matches": len(ms)}))
                    else:
                        m = ms[w]
                        e = m[0] if a == "before" else m[1]
                        if tb != e:
                            out.append((f"mark-not-at-the-indexed-match:{op['op']}:{a}", {"regex": op["regex"], "which": w, "at": tb, "expected": e, "match_positions": sorted(cand)[:8], "xml_before": before["xml"][-400:], "xml_after": xml_after[-400:]}))
                outcome += f":which={w}/{min(len(ms), 3)}"
        if a == "content" and marks and isinstance(op.get("which"), int):
            ms = main_matches(before["tn"], re.compile(op["regex"]))
            w = op["which"]
            starts = [e for e in marks if e.tag.rpartition("}")[2] in ("bookmark-start", "reference-mark-start", "annotation")]
            ends = [e for e in marks if e.tag.rpartition("}")[2] in ("bookmark-end", "reference-mark-end", "annotation-end")]
            if ms and w < len(ms) and starts and ends and not _inside_new(starts[0], [x for x in news if x is not starts[0]]):
                newids = {id(x) for x in news} | annots
                tbs = t_before_skipping(n, starts[0], newids)
                tbe = t_before_skipping(n, ends[0], newids)
                if tbs != ms[w][0]:
                    out.append((f"range-start-not-at-the-indexed-match:{op['op']}", {"regex": op["regex"], "which": w, "at": tbs, "expected": ms[w][0], "xml_before": before["xml"][-400:], "xml_after": xml_after[-400:]}))
                elif not op["rkind"].startswith("anchor") and tbe != ms[w][1]:
                    out.append((f"range-end-not-at-the-indexed-match:{op['op']}", {"regex": op["regex"], "which": w, "at": tbe, "expected": ms[w][1], "xml_before": before["xml"][-400:], "xml_after": xml_after[-400:]}))
                outcome += f":which={w}/{min(len(ms), 3)}"
    return out, sit, outcome


def _inside_new(mark, news):
    ids = {id(x) for x in news}
    return any(id(a) in ids for a in mark.iterancestors())


def gen_removal(rng, p):
    n = node(p)
    spans = [e for e in n.iter(TX + "span")]
    links = [e for e in n.iter(TX + "a")]
    inl = [e for e in n.iter() if isinstance(e.tag, str) and e is not n and e.getparent() is not None and e.tag.rpartition("}")[2] in ("span", "a", "bookmark", "reference-mark", "s", "tab", "line-break", "note", "bookmark-start", "bookmark-end", "reference-mark-start")]
    anns = [e for e in n.iter("{urn:oasis:names:tc:opendocument:xmlns:office:1.0}annotation")]
    if anns and rng.random() < 0.4:
        # an annotation (point or range) taken away again: Annotation.delete() or delete through the parent
        return {"op": "delete_annotation", "idx": rng.randrange(10**6)}
    k = rng.choice(["remove_spans", "remove_links", "remove_span", "remove_link", "delete", "delete"])
    if k == "remove_span" and not spans or k == "remove_link" and not links or k == "delete" and not inl:
        k = "remove_spans"
    idx = rng.randrange(10**6)
    return {"op": k, "idx": idx}


def judge_removal(p, op):
    """-> (violations, situation, outcome)"""
    from odfdo import Element

    out = []
    n = node(p)
    before_xml = etree.tostring(n, encoding="unicode", with_tail=False)
    R = odftext.project(n)
    o = op["op"]
    if o in ("remove_spans", "remove_links", "remove_span", "remove_link"):
        tag = TX + ("span" if "span" in o else "a")
        targets = [e for e in n.iter(tag)]
        try:
            if o == "remove_spans":
                res = p.remove_spans(keep_heading=False)
            elif o == "remove_links":
                res = p.remove_links()
            else:
                if not targets:
                    return out, o, "nothing"
                t = targets[op["idx"] % len(targets)]
                wrapper = Element.from_tag(t)
                res = p.remove_span(wrapper) if o == "remove_span" else p.remove_link(wrapper)
        except Exception as e:
            import traceback

            return [(f"removal-raised:{o}:{type(e).__name__}", {"exc": repr(e), "tb": traceback.format_exc()[-600:], "xml": before_xml[-400:]})], o, "raised"
        if isinstance(res, list):
            return out, o, "list"
        rn = node(res)
        R2 = odftext.project(rn)
        sit = o + (":empty-element" if any(len(t) == 0 and not t.text for t in targets) else "") + (":nested" if any(t.getparent() is not None and t.getparent().tag == tag for t in targets) else "")
        if R2 != R:
            out.append((f"text-changed:{o}", {"before": R, "after": R2, "xml_before": before_xml[-500:], "xml_after": etree.tostring(rn, encoding="unicode")[-500:]}))
        if o in ("remove_spans", "remove_links"):
            left = [e for e in rn.iter(tag)]
            if left and not (o == "remove_spans" and rn.tag == TX + "h" and False):
                out.append((f"markup-not-removed:{o}", {"left": len(left)}))
        return out, sit, "stripped"
    # delete of an inline element or mark
    inl = [e for e in n.iter() if isinstance(e.tag, str) and e is not n and e.tag.rpartition("}")[2] in ("span", "a", "bookmark", "reference-mark", "s", "tab", "line-break", "note", "bookmark-start", "bookmark-end", "reference-mark-start")]
    if o == "delete_annotation":
        OFA = "{urn:oasis:names:tc:opendocument:xmlns:office:1.0}annotation"
        inl = [e for e in n.iter(OFA) if not any(a.tag == OFA for a in e.iterancestors())]
    if not inl:
        return out, "delete", "nothing"
    t = inl[op["idx"] % len(inl)]
    local = t.tag.rpartition("}")[2]
    # expected reading: the paragraph without that element (its tail kept)
    import copy

    shadow = copy.deepcopy(n)
    # index path from the paragraph down to the target
    idx_path = []
    cur = t
    while cur is not n:
        par0 = cur.getparent()
        idx_path.append(list(par0).index(cur))
        cur = par0
    target = shadow
    for i in reversed(idx_path):
        target = target[i]
    tail = target.tail
    par = target.getparent()
    prev = target.getprevious()
    par.remove(target)
    if tail:
        if prev is not None:
            prev.tail = (prev.tail or "") + tail
        else:
            par.text = (par.text or "") + tail
    if local == "annotation" and op["idx"] % 2:
        # Annotation.delete() takes the end mark of its range along, wherever it sits (inside a span, a link)
        aname = t.get("{urn:oasis:names:tc:opendocument:xmlns:office:1.0}name")
        for e in list(shadow.iter("{urn:oasis:names:tc:opendocument:xmlns:office:1.0}annotation-end")):
            if aname and e.get("{urn:oasis:names:tc:opendocument:xmlns:office:1.0}name") == aname:
                etail, epar, eprev = e.tail, e.getparent(), e.getprevious()
                epar.remove(e)
                if etail:
                    if eprev is not None:
                        eprev.tail = (eprev.tail or "") + etail
                    else:
                        epar.text = (epar.text or "") + etail
    expected = odftext.project(shadow)
    sit = "delete:" + local + (":with-tail" if t.tail else ":no-tail") + (":first-child" if t.getprevious() is None else ":has-previous")
    try:
        w = Element.from_tag(t)
        if op["idx"] % 2:
            w.delete()
        else:
            Element.from_tag(t.getparent()).delete(w)
    except Exception as e:
        return [(f"removal-raised:delete:{type(e).__name__}", {"exc": repr(e)})], sit, "raised"
    R2 = odftext.project(n)
    if R2 != expected:
        out.append((f"text-changed:delete:{local}", {"before": R, "after": R2, "expected": expected, "xml_before": before_xml[-500:], "xml_after": etree.tostring(n, encoding="unicode", with_tail=False)[-500:]}))
    return out, sit, "deleted"


def run_case(case, res, rng=None):
    """case = {"pieces":…, "heading": bool, "ops": [...], "removals": [...]}"""
    from odfdo import Element

    p = Element.from_tag(pieces_xml([tuple(x) for x in case["pieces"]], case.get("heading", False)))
    ops = case.setdefault("ops", [])
    nops = case.get("nops", len(ops))
    for i in range(nops):
        before = snapshot(p)
        if rng is not None:
            ops.append(gen_op(rng, before, i))
        op = ops[i]
        exc = None
        try:
            apply_op(p, op)
        except Exception as e:
            exc = e
        v, sit, outcome = judge_insertion(p, op, before, exc)
        if res is not None:
            res.judge()
            res.cls((op["op"], sit, f"earlier={i}", outcome), True)
        if v:
            return [(m, dict(d, step=i, op=op)) for m, d in v]
    rems = case.setdefault("removals", [])
    nrem = case.get("nrem", len(rems))
    for j in range(nrem):
        if rng is not None:
            rems.append(gen_removal(rng, p))
        op = rems[j]
        v, sit, outcome = judge_removal(p, op)
        if res is not None:
            res.judge()
            res.cls((op["op"], sit, outcome), True)
        if v:
            return [(m, dict(d, step=f"removal{j}", op=op)) for m, d in v]
    return None


def run(ctx, res):
    for c in range(CASES[ctx.tier]):
        rng = ctx.rng(c)
        case = {"pieces": gen_pieces(rng), "heading": rng.random() < 0.2, "nops": rng.randint(0, 4), "nrem": rng.randint(0, 2)}
        try:
            v = run_case(case, res, rng)
        except Exception as e:
            import traceback

            v = [(f"harness-raised:{type(e).__name__}", {"exc": repr(e), "tb": traceback.format_exc()[-900:]})]
        if c < 2:
            res.sample({"xml": pieces_xml([tuple(x) for x in case["pieces"]], case["heading"])[-300:], "ops": case.get("ops"), "removals": case.get("removals")})
        if v:
            m, d = v[0]
            case.pop("nops", None)
            case.pop("nrem", None)
            res.violation(m, d, {"case": case})


def replay(case):
    c = dict(case["case"])
    c.pop("nops", None)
    c.pop("nrem", None)
    v = run_case(c, None, None)
    return [{"mechanism": m, "detail": d} for m, d in (v or [])]


MANIFEST = {
    "text": "Exploration by runtime monitoring: paragraphs assembled from raw XML pieces (words with repeats, white-space elements, spans incl. nested and empty ones with tails, links, marks, notes) receive 0-4 markup insertions of mixed kinds addressed by regular expressions of a family or by text-node offsets aimed at node boundaries, then 0-2 removals; around every operation a monitor compares the ODF reading of the paragraph (independent interpreter), checks that all pre-existing elements survive, that wrappers hold exactly the regex matches of each text node or the designated offsets, that marks sit at the addressed position, that failing addresses leave the XML byte-identical, and that removals drop nothing but the removed element's own characters. Held = no operation violated these on the executions observed.",
    "note": "Trusted: vf/oracles/odftext.py; Python's re on each text node as the meaning of 'what the regex matched'; odfdo's documented text-node offset coordinate system.",
    "technique": "runtime monitoring: before/after invariant on an independent text projection + exactness oracle for wrappers and marks",
}
