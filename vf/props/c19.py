"""C19 - all ways of addressing cells agree; written addresses parse back to themselves.

Monitor shape: reference model (O-GRID read of the same rectangle) + agreement between
coordinate forms, on every method that takes coordinates; enumeration of the column-letter
bijection; named ranges re-read from the XML they wrote."""

import io
import itertools

from .. import tablehist as TH
from .. import tablelab as TL

LEVEL = "exploration"
RULE = (
    "Part 1 (enumerated, flag bijection_exhaustive): digit_to_alpha/alpha_to_digit for every n in 0..20000 "
    "(beyond the 16384-column limit) compared with an independent implementation, injectivity and order, plus "
    "random n to 10^12 and lower-case letters. Part 2: on tables reached by C01 histories, every place (cell, "
    "rectangle, column range, row range) is written in every coordinate form ('C4', (2,3), 'C4:D5', (2,3,3,4), "
    "'A:C', '1:4', 2-tuples as row/column ranges, negative numbers counted from the current end, areas given "
    "to cell methods) and passed to get_value, get_cell, get_values, iter_values, get_cells, get_rows, "
    "get_columns, get_row, get_column, get_row_values, get_column_values, Row.get_cells/get_values and (on "
    "clones) set_value, set_cell, set_values, set_cells, delete_cell, insert_cell; each answer must equal the "
    "O-GRID read of that rectangle (so forms agree and are right, ranges are bounded on both sides). Part 3: "
    "NamedRange(name, area, table_name) for accepted table names over {a,B,1,space,.,',$,-,e-acute,_} x area "
    "forms -> serialise -> re-parse: name/table_name/start/end/crange equal; renaming a table inside a "
    "document retargets exactly the named ranges that pointed to it and they resolve through get_values. One "
    "evaluation = one (method, place, form) or one named-range case. Class = (method, form, bound kind)."
)
SHARDS = {"quick": 16, "thorough": 16}
TIMEOUT = {"quick": 300, "thorough": 3600}
MIN_EVALS = {"quick": 30000, "thorough": 600000}
CASES = {"quick": 60, "thorough": 2500}
EXHAUSTIVE = {"quick": False, "thorough": False}
ASSUMPTIONS = [
    "a 2-tuple given to an area method of Table is a row range, to get_columns a column range, to a cell method (x, y): odfdo's documented reading",
    "negative numbers outside [-n, -1] are not generated",
    "table names containing a double quote are excluded from the document-level named-range lookups (XPath quoting is C14's business)",
]
REACH = [
    ("odfdo.utils.coordinates", "convert_coordinates", True),
    ("odfdo.utils.coordinates", "translate_from_any", True),
    ("odfdo.utils.coordinates", "increment", True),
    ("odfdo.utils.coordinates", "alpha_to_digit", True),
    ("odfdo.utils.coordinates", "digit_to_alpha", True),
    ("odfdo.table", "Table._translate_table_coordinates_list", True),
    ("odfdo.table", "Table._translate_table_coordinates_str", True),
    ("odfdo.table", "Table._translate_column_coordinates_str", True),
    ("odfdo.table", "Table._translate_column_coordinates_list", True),
    ("odfdo.table", "Table._translate_cell_coordinates", True),
    ("odfdo.table", "Table.get_columns", True),
    ("odfdo.table", "NamedRange._make_base_cell_address", True),
    ("odfdo.table", "NamedRange._make_cell_range_address", True),
    ("odfdo.table", "Table.name", True),
    ("odfdo.row", "Row._translate_row_coordinates", True),
]


# --------------------------------------------------------------------------- part 1


def part_bijection(ctx, res):
    from odfdo.utils.coordinates import alpha_to_digit, digit_to_alpha

    if ctx.shard != 0:
        return
    prev = None
    seen = set()
    for n in range(0, 20001):
        res.judge()
        a = digit_to_alpha(n)
        ok = a == TL.alpha(n) and alpha_to_digit(a) == n and alpha_to_digit(a.lower()) == n and a not in seen
        if prev is not None and not ((len(prev), prev) < (len(a), a)):
            ok = False
        seen.add(a)
        prev = a
        if not ok:
            res.violation("bijection:column-letters", {"n": n, "alpha": a, "expected": TL.alpha(n), "back": alpha_to_digit(a)}, {"kind": "bijection", "n": n})
    res.cls(("bijection", "0..20000", "enumerated"), True)
    rng = ctx.rng("bij")
    for _ in range(3000):
        n = rng.randint(20001, 10**12)
        res.judge()
        a = digit_to_alpha(n)
        if a != TL.alpha(n) or alpha_to_digit(a) != n:
            res.violation("bijection:column-letters-large", {"n": n, "alpha": a}, {"kind": "bijection", "n": n})
    res.cls(("bijection", "random-large", "sampled"), True)
    res.info["bijection_exhaustive"] = "every column number 0..20000 in both directions"


# --------------------------------------------------------------------------- part 2


def cell_forms(x, y, W, H):
    """All ways of writing the cell (x, y)."""
    forms = [("tuple", (x, y)), ("list", [x, y]), ("str", f"{TL.alpha(x)}{y + 1}"), ("str-lower", f"{TL.alpha(x).lower()}{y + 1}"), ("str-space", f" {TL.alpha(x)}{y + 1} ")]
    forms.append(("area-4tuple", (x, y, x + 1, y + 1)))
    forms.append(("area-str", f"{TL.alpha(x)}{y + 1}:{TL.alpha(x + 1)}{y + 2}"))
    if x < W and y < H:
        forms.append(("neg", (x - W, y - H)))
        if x > 0:
            forms.append(("neg-y", (x, y - H)))
        if y > 0:
            forms.append(("neg-x", (x - W, y)))
    return forms


def area_forms(x, y, z, t, W, H):
    forms = [("4tuple", (x, y, z, t)), ("4list", [x, y, z, t]), ("str", f"{TL.alpha(x)}{y + 1}:{TL.alpha(z)}{t + 1}"), ("str-lower", f"{TL.alpha(x).lower()}{y + 1}:{TL.alpha(z).lower()}{t + 1}")]
    if z < W and t < H:
        neg = (x - W if x > 0 else x, y - H if y > 0 else y, z - W, t - H)
        forms.append(("neg", neg))
        forms.append(("neg-end", (x, y, z - W, t - H)))
        forms.append(("neg-end-col", (x, y, z - W, t)))
        forms.append(("neg-end-row", (x, y, z, t - H)))
        forms.append(("neg-list", list(neg)))
        forms.append(("neg-end-list", [x, y, z - W, t - H]))
    return forms


def check_place(t, g, rng, res):
    """One round of agreement checks on the current state. -> [(mechanism, detail)]"""
    out = []
    W, H = g.W, g.H
    if not (W and H):
        return out
    P = g.padded()

    def bad(method, form, coord, got, exp):
        out.append((f"forms:{method}:{form}", {"coord": coord, "got": got, "expected": exp, "size": [W, H]}))

    def jud(method, form, bound):
        res.judge()
        res.cls((method, form, bound), True)

    # ---- cells
    for _ in range(2):
        x, y = rng.randint(0, W), rng.randint(0, H)
        bound = "inner" if (x < W and y < H) else "beyond"
        exp = g.value(x, y)
        for form, c in cell_forms(x, y, W, H):
            jud("get_value", form, bound)
            v = t.get_value(c)
            if not TL.values_equal(v, exp):
                bad("get_value", form, c, v, exp)
            jud("get_cell", form, bound)
            cell = t.get_cell(c)
            if not TL.values_equal(cell.value, exp) or (cell.x, cell.y) != (x, y):
                bad("get_cell", form, c, [cell.value, cell.x, cell.y], [exp, x, y])
    # ---- areas
    for _ in range(2):
        x, y = rng.randrange(W), rng.randrange(H)
        z, tt = rng.randint(x, W + 1), rng.randint(y, H + 1)
        bound = "inner" if (z < W - 1 and tt < H - 1) else ("to-edge" if (z < W and tt < H) else "beyond")
        exp = g.area(x, y, z, tt)
        for form, c in area_forms(x, y, z, tt, W, H):
            given = list(c) if isinstance(c, list) else None
            jud("get_values", form, bound)
            v = [list(r) for r in t.get_values(c)]
            if given is not None and c != given:
                # the caller's list is the caller's: an area counted from the end must still be counted from the end
                # when the same list is used again (after the table grew or shrank)
                bad("get_values:argument-rewritten", form, given, list(c), given)
                c[:] = given
            if not TL.matrix_equal(v, exp):
                bad("get_values", form, c, v, exp)
            jud("iter_values", form, bound)
            v = [list(r) for r in t.iter_values(c)]
            if not TL.matrix_equal(v, exp):
                bad("iter_values", form, c, v, exp)
            jud("get_cells", form, bound)
            cells = t.get_cells(c)
            v = [[cc.value for cc in row] for row in cells]
            # get_cells returns the explicit cells of each row: compare modulo the padding
            expc = [[g.rows[yy][xx] for xx in range(x, min(z, len(g.rows[yy]) - 1) + 1)] for yy in range(y, min(tt, H - 1) + 1)]
            if not TL.matrix_equal(v, expc):
                bad("get_cells", form, c, v, expc)
            jud("get_rows", form, bound)
            rows = t.get_rows(c)
            if [r.y for r in rows] != list(range(y, min(tt, H - 1) + 1)):
                bad("get_rows", form, c, [r.y for r in rows], list(range(y, min(tt, H - 1) + 1)))
            jud("get_columns", form, bound)
            cols = t.get_columns(c)
            if [cc.x for cc in cols] != list(range(x, min(z, W - 1) + 1)):
                bad("get_columns", form, c, [cc.x for cc in cols], list(range(x, min(z, W - 1) + 1)))
            if given is not None and c != given:
                bad("area-readers:argument-rewritten", form, given, list(c), given)
    # ---- partial forms: column ranges and row ranges
    x = rng.randrange(W)
    z = rng.randint(x, W - 1)
    y = rng.randrange(H)
    tt = rng.randint(y, H - 1)
    col_forms = [("A:C", f"{TL.alpha(x)}:{TL.alpha(z)}"), ("4tuple-None", (x, None, z, None))]
    exp = g.area(x, 0, z, H - 1)
    for form, c in col_forms:
        jud("get_values", form, "partial")
        v = [list(r) for r in t.get_values(c)]
        if not TL.matrix_equal(v, exp):
            bad("get_values", form, c, v, exp)
    for form, c in col_forms + [("2tuple-cols", (x, z)), ("neg-2tuple-cols", (x, z - W))]:
        jud("get_columns", form, "partial")
        cols = t.get_columns(c)
        if [cc.x for cc in cols] != list(range(x, z + 1)):
            bad("get_columns", form, c, [cc.x for cc in cols], list(range(x, z + 1)))
    # a single reference given to get_columns designates one column, whatever its form
    for form, c in [("str-col", TL.alpha(x)), ("str-cell", f"{TL.alpha(x)}{y + 1}"), ("1tuple", (x,)), ("1list", [x]), ("neg-1tuple", (x - W,)), ("A:A", f"{TL.alpha(x)}:{TL.alpha(x)}"), ("2tuple-same", (x, x))]:
        jud("get_columns", form, "single")
        cols = t.get_columns(c)
        if [cc.x for cc in cols] != [x]:
            bad("get_columns", form, c, [cc.x for cc in cols], [x])
    row_forms = [("1:4", f"{y + 1}:{tt + 1}"), ("2tuple-rows", (y, tt)), ("4tuple-None", (None, y, None, tt)), ("neg-2tuple-rows", (y, tt - H))]
    exp = g.area(0, y, W - 1, tt)
    for form, c in row_forms:
        jud("get_values", form, "partial")
        v = [list(r) for r in t.get_values(c)]
        if not TL.matrix_equal(v, exp):
            bad("get_values", form, c, v, exp)
        jud("get_rows", form, "partial")
        rows = t.get_rows(c)
        if [r.y for r in rows] != list(range(y, tt + 1)):
            bad("get_rows", form, c, [r.y for r in rows], list(range(y, tt + 1)))
    # ---- single row / column addressing
    for form, c in [("int", y), ("str", str(y + 1)), ("neg", y - H)]:
        jud("get_row", form, "inner")
        r = t.get_row(c)
        if r.y != y or not TL.list_equal(TL.strip_none(r.get_values()), TL.strip_none(g.rows[y])):
            bad("get_row", form, c, [r.y, r.get_values()], [y, g.rows[y]])
        jud("get_row_values", form, "inner")
        v = t.get_row_values(c)
        if not TL.list_equal(v, P[y]):
            bad("get_row_values", form, c, v, P[y])
    for form, c in [("int", x), ("str", TL.alpha(x)), ("str-lower", TL.alpha(x).lower()), ("neg", x - W)]:
        jud("get_column", form, "inner")
        col = t.get_column(c)
        if col.x != x:
            bad("get_column", form, c, col.x, x)
        jud("get_column_values", form, "inner")
        v = t.get_column_values(c)
        if not TL.list_equal(v, g.column(x)):
            bad("get_column_values", form, c, v, g.column(x))
    # ---- Row-level ranges
    row = t.get_row(y)
    n = len(g.rows[y])
    if n:
        a = rng.randrange(n)
        b = rng.randint(a, n + 1)
        exp = g.rows[y][a : b + 1]
        for form, c in [("2tuple", (a, b)), ("A:C", f"{TL.alpha(a)}:{TL.alpha(b)}")] + ([("neg", (a, b - n))] if b < n else []):
            jud("Row.get_values", form, "inner" if b < n else "beyond")
            v = row.get_values(c)
            if not TL.list_equal(v, exp):
                bad("Row.get_values", form, c, v, exp)
            jud("Row.get_cells", form, "inner" if b < n else "beyond")
            cs = row.get_cells(c)
            if not TL.list_equal([cc.value for cc in cs], exp) or [cc.x for cc in cs] != list(range(a, min(b, n - 1) + 1)):
                bad("Row.get_cells", form, c, [[cc.x, cc.value] for cc in cs], exp)
    # ---- writers on clones: every form must produce the table the model predicts
    x, y = rng.randrange(W), rng.randrange(H)
    writer = rng.choice(["set_value", "set_cell", "set_values", "set_cells", "delete_cell", "insert_cell"])
    g2 = g.clone()
    if writer in ("set_value", "set_cell"):
        g2.set_cell(x, y, "W", 1)
    elif writer in ("set_values", "set_cells"):
        g2.set_cells_seq(x, y, [("W", 1), ("V", 1)])
    elif writer == "delete_cell":
        g2.delete_cell(x, y)
    else:
        g2.insert_cell(x, y, "W", 1)
    from odfdo import Cell

    for form, c in cell_forms(x, y, W, H):
        if form.startswith("area") and writer in ("delete_cell", "insert_cell"):
            continue
        jud(writer, form, "inner")
        t2 = t.clone
        try:
            if writer == "set_value":
                t2.set_value(c, "W")
            elif writer == "set_cell":
                t2.set_cell(c, Cell("W"))
            elif writer == "set_values":
                t2.set_values([["W", "V"]], c)
            elif writer == "set_cells":
                t2.set_cells([[Cell("W"), Cell("V")]], c)
            elif writer == "delete_cell":
                t2.delete_cell(c)
            else:
                t2.insert_cell(c, Cell("W"))
            got = [list(r) for r in t2.get_values()]
            if tuple(t2.size) != (g2.W, g2.H) or not TL.matrix_equal(got, g2.padded()):
                bad(writer, form, c, got, g2.padded())
        except Exception as e:
            bad(writer, form, c, repr(e), "no exception")
    return out


# --------------------------------------------------------------------------- part 3

NAME_ALPHA = ["a", "B", "1", " ", ".", "'", "$", "-", "é", "_"]


def accepted_table_names(rng, n_random):
    from .c07 import table_name_valid

    names = []
    for L in (1, 2, 3):
        for tup in itertools.product(NAME_ALPHA, repeat=L):
            s = "".join(tup)
            if table_name_valid(s):
                names.append(s)
    for _ in range(n_random):
        s = "".join(rng.choice(NAME_ALPHA + ["c", "D", "9"]) for _ in range(rng.randint(4, 12)))
        if table_name_valid(s):
            names.append(s)
    return names


def name_class(s):
    k = set()
    for ch in s:
        k.add({" ": "space", ".": "dot", "'": "apos", "$": "dollar", "-": "dash", "_": "us"}.get(ch, "nonascii" if ord(ch) > 127 else ("digit" if ch.isdigit() else "alpha")))
    return "+".join(sorted(k))


def part_named_ranges(ctx, res):
    from odfdo import Document, Element, NamedRange, Table

    rng = ctx.rng("nr")
    names = accepted_table_names(rng, 100 if ctx.quick else 3000)
    areas = [("A1", (0, 0), (0, 0)), ("B2:C3", (1, 1), (2, 2)), ((3, 4), (3, 4), (3, 4)), ((0, 1, 2, 3), (0, 1), (2, 3)), ("AA10:AB11", (26, 9), (27, 10)), ([5, 6, 5, 6], (5, 6), (5, 6))]
    for i, tn in enumerate(names):
        if not ctx.mine(i):
            continue
        area, start, end = areas[i // ctx.nshards % len(areas)]
        res.judge()
        res.cls(("NamedRange-reparse", name_class(tn), "area-str" if isinstance(area, str) else "area-tuple"), True)
        case = {"kind": "nr", "table_name": tn, "area": area}
        try:
            nr = NamedRange("nr_1", area, tn)
            facts = {"ctor": (nr.name, nr.table_name, nr.start, nr.end, nr.crange)}
            back = Element.from_tag(nr.serialize(with_ns=True))
            facts["reparse"] = (back.name, back.table_name, back.start, back.end, back.crange)
            exp = ("nr_1", tn, start, end, start + end)
            for k, f in facts.items():
                if tuple(f) != exp:
                    res.violation(f"named-range:{k}-differs:{name_class(tn)}", {"table_name": tn, "area": area, "got": f, "expected": exp, "xml": nr.serialize()}, case)
                    break
        except Exception as e:
            res.violation(f"named-range:raised:{type(e).__name__}", {"table_name": tn, "area": area, "exc": repr(e)}, case)
    # rename inside a document
    docs = 12 if ctx.quick else 300
    pool = [n for n in names if '"' not in n]
    for d in range(docs):
        r = ctx.rng("rename", d)
        n1, n2, n3 = r.sample(pool, 3)
        if r.random() < 0.4:  # near-miss decoy: the other table's name contains / extends the first
            n2 = n1 + r.choice([" 2", "x", "_b"])
        res.judge()
        res.cls(("rename", name_class(n1), name_class(n3), "decoy-superstring" if n2.startswith(n1) else "decoy-other", "scope-drawn" if d % 5 < 2 else ""), True)
        case = {"kind": "rename", "names": [n1, n2, n3]}
        try:
            doc = Document("spreadsheet")
            doc.body.clear()
            t1, t2 = Table(n1), Table(n2)
            t1.set_values([[1, 2, 3], [4, 5, 6]])
            t2.set_values([[7, 8, 9], [10, 11, 12]])
            doc.body.append(t1)
            doc.body.append(t2)
            t1.set_named_range("first", "A1:B2")
            t2.set_named_range("second", "B1:C2")
            t1.set_named_range("third", (2, 1))
            scope = "document"
            if r.random() < 0.4:
                # the way LibreOffice stores names with sheet scope: a table:named-expressions child of their table
                scope = "sheet"
                case["scope"] = scope
                from lxml import etree as _et

                TNS = "urn:oasis:names:tc:opendocument:xmlns:table:1.0"
                body_n = doc.body._Element__element
                for tbl in body_n.iter("{%s}table" % TNS):
                    own = [e for e in body_n.iter("{%s}named-range" % TNS) if (e.get("{%s}base-cell-address" % TNS) or "").lstrip("$").startswith(("'" + tbl.get("{%s}name" % TNS).replace("'", "''") + "'.", tbl.get("{%s}name" % TNS) + "."))]
                    if own and r.random() < 0.8:
                        ne = _et.SubElement(tbl, "{%s}named-expressions" % TNS)
                        for e in own:
                            ne.append(e)
                for ne in list(body_n.iterchildren("{%s}named-expressions" % TNS)):
                    if len(ne) == 0:
                        body_n.remove(ne)
                buf = io.BytesIO()
                doc.save(buf)
                buf.seek(0)
                doc = Document(buf)
            if r.random() < 0.5:
                buf = io.BytesIO()
                doc.save(buf)
                buf.seek(0)
                doc = Document(buf)
            which = r.choice([1, 2])  # rename the first table, or the decoy (whose name may contain the other's)
            ta = doc.body.get_table(name=n1 if which == 1 else n2)
            filt = {nr.name for nr in ta.get_named_ranges(table_name=ta.name)}
            exp_f = {"first", "third"} if which == 1 else {"second"}
            if filt != exp_f:
                res.violation("named-ranges-filter-by-table-name", {"table": ta.name, "got": sorted(filt), "expected": sorted(exp_f), "names": [n1, n2]}, case)
                continue
            ta.name = n3
            got = {nr.name: nr.table_name for nr in doc.body.get_named_ranges()}
            exp = {"first": n3, "second": n2, "third": n3} if which == 1 else {"first": n1, "second": n3, "third": n1}
            if got != exp:
                res.violation("rename:named-ranges-not-retargeted-exactly", {"got": got, "expected": exp}, case)
                continue
            v1 = doc.body.get_named_range("first").get_values()
            v2 = doc.body.get_named_range("second").get_values()
            v3 = doc.body.get_named_range("third").get_value()
            if not (TL.matrix_equal(v1, [[1, 2], [4, 5]]) and TL.matrix_equal(v2, [[8, 9], [11, 12]]) and v3 == 6):
                res.violation("rename:named-range-resolves-wrong", {"first": v1, "second": v2, "third": v3}, case)
        except Exception as e:
            import traceback

            res.violation(f"rename:raised:{type(e).__name__}", {"names": [n1, n2, n3], "exc": repr(e), "tb": traceback.format_exc()[-800:]}, case)


# --------------------------------------------------------------------------- driver


def _on_step(res, rng):
    def on_step(i, t, g, op, info):
        if rng.random() < 0.5:
            return None
        try:
            return check_place(t, g, rng, res)
        except Exception as e:
            import traceback

            tb = traceback.format_exc()
            if "/vf/" in tb.strip().splitlines()[-2] if len(tb.strip().splitlines()) > 1 else False:
                raise  # an error of the harness itself
            # a read addressed inside the table raised: the forms do not address the same cells
            return [(f"forms:raised:{type(e).__name__}", {"exc": repr(e), "tb": tb[-700:]})]

    return on_step


def part_after_shrink(ctx, res):
    """Forms compared right after a shrinking transformation (the sizes negative numbers count from have changed)."""
    from ..oracles import tabxml

    for c in range(12 if ctx.quick else 300):
        rng = ctx.rng("shrink", c)
        vals = TL.Vals()
        recipe = TL.gen_recipe(rng, vals)
        # trailing empty rows and cells to remove
        recipe["rows"].append({"r": rng.choice([1, 2, 3]), "cells": []})
        if rng.random() < 0.5:
            recipe["rows"].append({"r": 1, "cells": [{"v": None, "r": rng.choice([1, 2])}]})
        t = TL.build_table(recipe)
        how = rng.choice(["optimize_width", "rstrip", "rstrip(aggressive)"])
        case = {"kind": "after-shrink", "recipe": recipe, "how": how, "check_seed": [ctx.seed, ctx.shard, c]}
        try:
            if how == "optimize_width":
                t.optimize_width()
            else:
                t.rstrip(aggressive=how != "rstrip")
            w, rows = tabxml.expand(tabxml.parse(t.serialize(with_ns=True)))
            g = TL.Grid([list(r) for r in rows], w)
            if not (g.W and g.H):
                continue
            v = check_place(t, g, rng, res)
        except Exception as e:
            import traceback

            v = [(f"forms:raised-after-{how}:{type(e).__name__}", {"exc": repr(e), "tb": traceback.format_exc()[-600:]})]
        for m, d in (v or [])[:1]:
            res.violation(m + f"@after-{how}", d, case)


def run(ctx, res):
    part_after_shrink(ctx, res)
    part_bijection(ctx, res)
    part_named_ranges(ctx, res)
    for c in range(CASES[ctx.tier]):
        rng = ctx.rng(c)
        vals = TL.Vals()
        init = TH.gen_init(rng, vals)
        case = {"init": init, "allow": None}
        steps = rng.randint(1, 6)
        crng = ctx.rng(c, "checks")
        try:
            case, v = TH.run_case(case, _on_step(res, crng), gen=(rng, vals, steps, 0.2))
        except ValueError as e:
            if "too big" in str(e):
                continue
            raise
        if c < 2:
            res.sample({"init": case["init"], "ops": [s["op"] for s in case["steps"]][:3], "forms": ["C4", [2, 3], "C4:D5", [2, 3, 3, 4], "A:C", "1:4", [-2, -1]]})
        if v:
            m, d = v[0]
            if m.split(":")[0] in ("exception", "missing-exception", "law", "warm-read-raised"):
                continue
            res.violation(m, d, {"kind": "forms", "case": case, "check_seed": [ctx.seed, ctx.shard, c]})


def replay(case):
    from ..core import Ctx, Res

    res = Res()
    if case.get("kind") == "nr":
        ctx = Ctx("C19", "quick", 0, 0, 1)
        from odfdo import Element, NamedRange

        tn, area = case["table_name"], case["area"]
        area = tuple(area) if isinstance(area, list) else area
        nr = NamedRange("nr_1", area, tn)
        back = Element.from_tag(nr.serialize(with_ns=True))
        if back.table_name != tn or nr.table_name != tn:
            return [{"mechanism": "named-range:differs", "detail": {"table_name": tn, "ctor": nr.table_name, "reparse": back.table_name}}]
        return []
    if case.get("kind") == "after-shrink":
        from ..oracles import tabxml

        seed, shard, c = case["check_seed"]
        ctx = Ctx("C19", "quick", seed, shard, 16)
        rng = ctx.rng("shrink", c)
        t = TL.build_table(case["recipe"])
        try:
            t.optimize_width() if case["how"] == "optimize_width" else t.rstrip(aggressive=case["how"] != "rstrip")
            w, rows = tabxml.expand(tabxml.parse(t.serialize(with_ns=True)))
            v = check_place(t, TL.Grid([list(r) for r in rows], w), rng, res)
        except Exception as e:
            v = [(f"forms:raised-after-{case['how']}:{type(e).__name__}", {"exc": repr(e)})]
        return [{"mechanism": m, "detail": d} for m, d in (v or [])]
    if case.get("kind") == "forms":
        seed, shard, c = case["check_seed"]
        ctx = Ctx("C19", "quick", seed, shard, 16)
        crng = ctx.rng(c, "checks")
        _c, v = TH.run_case(case["case"], _on_step(res, crng), gen=None)
        return [{"mechanism": m, "detail": d} for m, d in (v or [])]
    return []


MANIFEST = {
    "text": "Exploration by runtime monitoring: the column-letter bijection is enumerated to 20000 against an independent implementation; on tables reached by generated histories every place is written in every coordinate form and passed to every method that takes coordinates, each answer being compared with the reference-model read of that rectangle (agreement between forms and correctness at once, both bounds of ranges); named ranges are written with every accepted table name up to length 3 over an alphabet with space, dot, apostrophe, dollar and non-ASCII and re-read from their own XML; renames are checked inside documents with decoy tables; the forms are compared again right after a shrinking transformation (optimize_width, rstrip). Held = all answers agree on what was observed.",
    "note": "Trusted: O-GRID for rectangle reads, the independent column-letter function, the C07 name predicate for 'accepted table name'.",
    "technique": "runtime monitoring: reference-model comparison across all coordinate forms + re-reading of written addresses",
}
