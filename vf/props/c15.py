"""C15 - reading, searching and exporting a document never changes it.

Monitor shape: purity monitor.  A digest of every part of the document as it stands in memory
(bytes of serialize() of each XML part, bytes of the other parts, the part list) is taken
before and after *each* read-only call; each call is made twice and must answer the same."""

import inspect
import itertools

from .. import doclab as DL
from .. import tablelab as TL
from ..oracles import tabxml

LEVEL = "exploration"
RULE = (
    "Documents: the 4 templates, every sample whose tables declare <= 20000 cells (bigger ones are counted as "
    "skipped_big and only their non-expanding entry points run), decorated packages, variants another producer "
    "could have written (optional elements of meta / styles / content left out, no settings part, named ranges "
    "with legal but non-canonical addresses) and generated documents "
    "(tables with trailing empty rows/cells and repeated runs, notes, frames, lists, spans). Read-only entry "
    "points are enumerated at run time: every property and every get_*/is_*/search*/to_*/as_*/show_* method "
    "callable without arguments on Document, Meta, Manifest, Styles/Content parts, the body element, every "
    "table, a sample of rows/cells/paragraphs, plus an explicit list with arguments (get_formatted_text in "
    "both modes, to_markdown, to_csv, str(), serialize(pretty), replace(pattern) counting with and without "
    "formatted, search/match/text_at, xpath, area reads aimed at the last column of a repeated run, "
    "Row.minimized_width, get_between ...), applied in a seeded random order, each twice. One evaluation = "
    "one call judged (digest before == digest after, byte for byte; second answer == first). Class = (owner "
    "class, entry point, document kind, feature flags of the document)."
)
SHARDS = {"quick": 16, "thorough": 16}
TIMEOUT = {"quick": 400, "thorough": 7200}
MIN_EVALS = {"quick": 15000, "thorough": 200000}
ASSUMPTIONS = [
    "parsing a part on first access is not a change of the document: all XML parts are parsed before the first digest",
    "entry points named get_*/is_*/search*/to_*/as_*/show_*, properties, str() and the listed exports are the read-only API; setters and everything else are not called",
]
REACH = [
    ("odfdo.mixin_md", "MDTable._md_format", True),
    ("odfdo.table", "Table._get_formatted_text_rst", True),
    ("odfdo.element", "Element.replace", True),
    ("odfdo.element", "Element.serialize", True),
    ("odfdo.row", "Row.minimized_width", True),
    ("odfdo.row", "Row.traverse", True),
    ("odfdo.document", "Document.get_formatted_text", True),
    ("odfdo.document", "Document.to_markdown", False),
    ("odfdo.meta", "Meta.as_dict", True),
]

SKIP_NAMES = {
    # not reads, or need arguments / environment
    "get_part", "clone", "get_element", "get_elements", "get_attribute", "get_attribute_integer", "get_attribute_string",
    "get_style_properties", "get_cell_style_properties", "get_cell_background_color", "get_table_style", "get_table_displayed",
    "get_style", "get_parent_style", "get_list_style", "get_between", "get_values", "get_value", "get_cell", "get_cells", "get_row",
    "get_rows", "get_column", "get_columns", "get_row_values", "get_column_values", "get_column_cells", "get_row_sub_elements",
    "get_named_range", "get_media_type", "get_user_defined_metadata_of_name", "search", "search_first", "search_all", "to_csv",
    "get_changed_region", "get_draw_page", "get_section", "get_paragraph", "get_header", "get_span", "get_table", "get_list", "get_frame",
    "get_image", "get_note", "get_annotation", "get_link", "get_bookmark", "get_bookmark_start", "get_bookmark_end", "get_reference_mark",
    "get_reference_mark_start", "get_reference_mark_end", "get_reference_mark_single", "get_variable_decl", "get_variable_set",
    "get_variable_set_value", "get_user_field_decl", "get_user_field_value", "get_user_defined", "get_user_defined_value", "get_toc",
    "get_draw_line", "get_draw_rectangle", "get_draw_ellipse", "get_draw_connector", "get_orphan_draw_connectors", "get_office_names",
    "get_text_change", "get_text_change_deletions", "get_text_change_starts", "get_text_change_ends",
    # documented get-or-create accessors ("Created if not found"): not read-only by contract
    "get_variable_decls", "get_user_field_decls",
}
PREFIXES = ("get_", "is_", "to_", "as_", "show_")


def entry_points(obj):
    """(kind, name) of the zero-argument read-only entry points of obj, by introspection."""
    cls = type(obj)
    out = []
    for name in sorted(dir(cls)):
        if name.startswith("_") or name in SKIP_NAMES:
            continue
        try:
            attr = inspect.getattr_static(cls, name)
        except AttributeError:
            continue
        if isinstance(attr, property):
            out.append(("prop", name))
            continue
        if not name.startswith(PREFIXES):
            continue
        fn = attr.__func__ if isinstance(attr, (staticmethod, classmethod)) else attr
        if not callable(fn):
            continue
        try:
            sig = inspect.signature(fn)
        except (TypeError, ValueError):
            continue
        params = list(sig.parameters.values())[1:] if not isinstance(attr, staticmethod) else list(sig.parameters.values())
        if all(p.default is not inspect.Parameter.empty or p.kind in (p.VAR_POSITIONAL, p.VAR_KEYWORD) for p in params):
            out.append(("call", name))
    return out


def norm(r, depth=0):
    """Comparable form of an answer."""
    from odfdo import Document, Element
    from odfdo.xmlpart import XmlPart

    if depth > 4:
        return "<deep>"
    if isinstance(r, Element):
        return ("E", r.serialize())
    if isinstance(r, XmlPart):
        return ("P", r.serialize())
    if isinstance(r, Document):
        return ("D", r.mimetype)
    if isinstance(r, (str, bytes, int, float, bool)) or r is None:
        return r
    if isinstance(r, dict):
        return tuple(sorted((str(k), repr(norm(v, depth + 1))) for k, v in r.items()))
    if isinstance(r, (list, tuple, set, frozenset)):
        return tuple(norm(v, depth + 1) for v in r)
    if hasattr(r, "__iter__") and not hasattr(r, "__len__"):
        return tuple(norm(v, depth + 1) for v in itertools.islice(r, 5000))
    return repr(r)


class Purity:
    def __init__(self, doc, res, kind, flags):
        self.doc, self.res, self.kind, self.flags = doc, res, kind, flags
        # everything parsed once: first access is not a change
        doc.body, doc.styles, doc.meta, doc.manifest
        try:
            doc.get_part("settings")
        except Exception:
            pass
        self.violations = []

    def digest(self):
        st = DL.memory_state(self.doc)
        return st

    def call(self, owner, name, fn, case):
        """Call fn twice; judge purity after each call and agreement of the answers."""
        before = self.digest()
        answers = []
        for attempt in (1, 2):
            try:
                r = fn()
                answers.append(("ok", norm(r)))
            except NotImplementedError:
                answers.append(("nie", None))
            except Exception as e:
                answers.append(("raise", type(e).__name__))
            after = self.digest()
            self.res.judge()
            if after != before:
                changed = sorted(k for k in set(before) | set(after) if before.get(k) != after.get(k))
                hint = DL.first_diff(before.get(changed[0], b"<x/>"), after.get(changed[0], b"<x/>")) if changed and DL.is_xml_name(changed[0]) else {}
                self.violations.append((f"document-changed:{owner}.{name}", {"parts": changed[:4], "call": attempt, "hint": hint, "kind": self.kind}, case))
                before = after
                break
        if len(answers) == 2 and answers[0] != answers[1]:
            self.violations.append((f"second-answer-differs:{owner}.{name}", {"first": repr(answers[0])[:300], "second": repr(answers[1])[:300]}, case))
        self.res.cls((owner, name, self.kind, self.flags, answers[0][0]), True)


def table_flags(t):
    try:
        xel = tabxml.parse(t.serialize(with_ns=True))
        cols, rows = tabxml.rle(xel)
    except Exception:
        return set(), None
    f = set()
    if any(r > 1 for r, _ in rows) or any(c[0] > 1 for _, cells in rows for c in cells):
        f.add("rle")
    if rows and all(c[1] is None for c in rows[-1][1]):
        f.add("trailing-empty-row")
    if any(cells and cells[-1][1] is None for _, cells in rows):
        f.add("trailing-empty-cell")
    return f, (cols, rows)


def explicit_calls(doc, rng, big):
    """(owner, name, thunk) for entry points that need arguments."""
    out = []
    body = doc.body
    out += [
        ("Document", "str", lambda: str(doc)),
        ("Document", "get_formatted_text", lambda: doc.get_formatted_text()),
        ("Document", "get_formatted_text(rst)", lambda: doc.get_formatted_text(rst_mode=True)),
        ("Document", "to_markdown", lambda: doc.to_markdown()),
        ("Document", "show_styles(auto)", lambda: doc.show_styles(automatic=True, common=False)),
        ("Document", "show_styles(props)", lambda: doc.show_styles(properties=True)),
        ("Document", "get_styles(paragraph)", lambda: doc.get_styles("paragraph")),
        ("Document", "get_style(paragraph,Standard)", lambda: doc.get_style("paragraph", "Standard")),
        ("Document", "get_styled_elements", lambda: doc.get_styled_elements("Standard")),
        ("Document", "get_part(content)", lambda: doc.get_part("content")),
        ("Document", "get_part(mimetype)", lambda: doc.get_part("mimetype")),
        ("Document", "clone", lambda: doc.clone.mimetype),
        ("Meta", "as_dict(full)", lambda: doc.meta.as_dict(full=True)),
        ("Meta", "as_json(full)", lambda: doc.meta.as_json(full=True)),
        ("Meta", "as_text", lambda: doc.meta.as_text()),
        ("Manifest", "get_media_type(/)", lambda: doc.manifest.get_media_type("/")),
        ("Manifest", "get_paths", lambda: doc.manifest.get_paths()),
        ("Body", "str", lambda: str(body)),
        ("Body", "serialize", lambda: body.serialize()),
        ("Body", "serialize(pretty)", lambda: body.serialize(pretty=True)),
        ("Body", "serialize(with_ns)", lambda: body.serialize(with_ns=True)),
        ("Body", "xpath(//text:p)", lambda: body.xpath("//text:p")),
        ("Body", "search(a)", lambda: body.search("a")),
        ("Body", "search_first(e)", lambda: body.search_first("e")),
        ("Body", "search_all(e)", lambda: body.search_all("e")),
        ("Body", "match(e)", lambda: body.match("e")),
        ("Body", "text_at(0,10)", lambda: body.text_at(0, 10)),
        ("Body", "replace(e)-count", lambda: body.replace("e")),
        ("Body", "replace(e,formatted)-count", lambda: body.replace("e", formatted=True)),
        ("Body", "replace( )-count-formatted", lambda: body.replace(" +", formatted=True)),
        ("Body", "get_formatted_text", lambda: body.get_formatted_text({"document": doc, "footnotes": [], "endnotes": [], "annotations": [], "rst_mode": False, "img_counter": 0, "images": [], "no_img_level": 0})),
        ("Body", "get_paragraphs(content)", lambda: body.get_paragraphs(content="e")),
        ("Body", "get_paragraph(0)", lambda: body.get_paragraph()),
        ("Body", "get_table(0)", lambda: body.get_table(0)),
        ("Body", "get_tracked_changes", lambda: body.get_tracked_changes()),
        ("Styles", "get_styles", lambda: doc.styles.get_styles()),
        ("Content", "get_styles", lambda: doc.content.get_styles()),
    ]
    out += tracked_calls(body)
    if hasattr(body, "get_named_ranges") and not big:
        out.append(("Body", "get_named_ranges", lambda: body.get_named_ranges()))
        try:
            names = [nr.name for nr in body.get_named_ranges()][:6]
        except Exception:
            names = []
        for nm in names:
            out += [
                ("Body", "get_named_range", lambda nm=nm: body.get_named_range(nm)),
                ("NamedRange", "get_values", lambda nm=nm: body.get_named_range(nm).get_values()),
                ("NamedRange", "get_value", lambda nm=nm: body.get_named_range(nm).get_value()),
                ("NamedRange", "crange/start/table_name", lambda nm=nm: (lambda r: (r.crange, r.start, r.table_name, r.usage))(body.get_named_range(nm))),
            ]
    for ti, t in enumerate(body.get_tables()[:4]):
        if big:
            out += [("Table", "size", lambda t=t: t.size), ("Table", "name", lambda t=t: t.name)]
            continue
        flags, enc = table_flags(t)
        W, H = t.size
        own = f"Table"
        out += [
            (own, "str", lambda t=t: str(t)),
            (own, "get_values", lambda t=t: t.get_values()),
            (own, "get_values(flat,type)", lambda t=t: t.get_values(flat=True, get_type=True)),
            (own, "iter_values", lambda t=t: list(t.iter_values())),
            (own, "get_cells", lambda t=t: t.get_cells()),
            (own, "get_cells(flat)", lambda t=t: t.get_cells(flat=True)),
            (own, "get_rows", lambda t=t: t.get_rows()),
            (own, "get_columns", lambda t=t: t.get_columns()),
            (own, "traverse", lambda t=t: list(t.traverse())),
            (own, "traverse_columns", lambda t=t: list(t.traverse_columns())),
            (own, "to_csv", lambda t=t: t.to_csv()),
            (own, "get_formatted_text", lambda t=t: t.get_formatted_text()),
            (own, "get_formatted_text(rst)", lambda t=t: t.get_formatted_text({"rst_mode": True, "no_img_level": 0, "document": doc, "footnotes": [], "endnotes": [], "annotations": [], "img_counter": 0, "images": []})),
            (own, "is_empty", lambda t=t: t.is_empty()),
            (own, "is_empty(aggressive)", lambda t=t: t.is_empty(aggressive=True)),
            (own, "get_named_ranges", lambda t=t: t.get_named_ranges()),
            (own, "to_markdown", lambda t=t: t._md_format() if hasattr(t, "_md_format") else None),
        ]
        # coordinates aimed at runs
        ys = sorted({0, max(H - 1, 0), H, rng.randrange(max(H, 1))})
        xs = sorted({0, max(W - 1, 0), W, rng.randrange(max(W, 1))})
        if enc:
            cols, rows = enc
            start = 0
            for r, cells in rows[:6]:
                cx = 0
                for c in cells:
                    if c[0] > 1:
                        xs.append(cx + c[0] - 1)  # last column of a repeated run
                        xs.append(cx)
                    cx += c[0]
                if r > 1:
                    ys.append(start + r - 1)
                start += r
        xs = sorted(set(x for x in xs if x <= W + 1))[:8]
        ys = sorted(set(y for y in ys if y <= H + 1))[:8]
        for y in ys:
            out += [
                (own, "get_row", lambda t=t, y=y: t.get_row(y)),
                (own, "get_row_values", lambda t=t, y=y: t.get_row_values(y) if y < t.height else None),
                (own, "is_row_empty", lambda t=t, y=y: t.is_row_empty(y)),
            ]
        for x in xs:
            out += [
                (own, "get_column", lambda t=t, x=x: t.get_column(x)),
                (own, "get_column_values", lambda t=t, x=x: t.get_column_values(x)),
                (own, "get_column_cells", lambda t=t, x=x: t.get_column_cells(x)),
                (own, "is_column_empty", lambda t=t, x=x: t.is_column_empty(x)),
            ]
        for x in xs:
            for y in ys[:4]:
                area = (x, y, x + 2, y + 2)
                out += [
                    (own, "get_value", lambda t=t, x=x, y=y: t.get_value((x, y))),
                    (own, "get_cell", lambda t=t, x=x, y=y: t.get_cell((x, y))),
                    (own, "get_values(area)", lambda t=t, a=area: t.get_values(a)),
                    (own, "get_cells(area)", lambda t=t, a=area: t.get_cells(a)),
                    (own, "get_rows(area)", lambda t=t, a=area: t.get_rows(a)),
                    (own, "get_columns(area)", lambda t=t, a=area: t.get_columns(a)),
                ]
        for y in ys[:4]:
            if y < H:
                out += [
                    ("Row", "minimized_width", lambda t=t, y=y: t.get_row(y, clone=False).minimized_width()),
                    ("Row", "get_values(range)", lambda t=t, y=y, x=xs[-1]: t.get_row(y, clone=False).get_values((x, x + 2))),
                    ("Row", "get_cells(range)", lambda t=t, y=y, x=xs[len(xs) // 2]: t.get_row(y, clone=False).get_cells((x, x + 3))),
                    ("Row", "traverse(range)", lambda t=t, y=y, x=xs[len(xs) // 2]: list(t.get_row(y, clone=False).traverse(start=x, end=x + 1))),
                    ("Row", "is_empty", lambda t=t, y=y: t.get_row(y, clone=False).is_empty()),
                    ("Row", "width", lambda t=t, y=y: t.get_row(y, clone=False).width),
                    ("Row", "last_cell", lambda t=t, y=y: t.get_row(y, clone=False).last_cell()),
                ]
    return out


def tracked_owners(body):
    """The tracked-changes family: the regions, their change elements and the marks in the text."""
    out = []
    try:
        tc = body.get_tracked_changes()
    except Exception:
        tc = None
    if tc is None:
        return out
    out.append(("TrackedChanges", tc))
    for reg in tc.get_changed_regions()[:3]:
        out.append(("TextChangedRegion", reg))
        ce = reg.get_change_element()
        if ce is not None:
            out.append((type(ce).__name__, ce))
    for getter in ("get_text_changes", "get_text_change_starts", "get_text_change_ends", "get_text_change_deletions"):
        try:
            els = getattr(body, getter)()
        except Exception:
            els = []
        for el in els[:2]:
            out.append((type(el).__name__, el))
    return out


def tracked_calls(body):
    out = []
    for oname, obj in tracked_owners(body):
        for meth in ("get_deleted", "get_inserted"):
            if not hasattr(obj, meth):
                continue
            for kw in ({"no_header": True}, {"as_text": True}, {"as_text": True, "no_header": True}):
                label = f"{meth}({','.join(sorted(kw))})"
                out.append((oname, label, lambda o=obj, m=meth, kw=kw: getattr(o, m)(**kw)))
            if meth == "get_inserted":
                out.append((oname, "get_inserted(clean=False)", lambda o=obj: o.get_inserted(clean=False)))
    return out


def introspected_calls(doc, rng, big):
    out = []
    owners = [("Document", doc), ("Meta", doc.meta), ("Manifest", doc.manifest), ("Body", doc.body), ("Styles", doc.styles), ("Content", doc.content)]
    body = doc.body
    if not big:
        for t in body.get_tables()[:2]:
            owners.append(("Table", t))
            if t.height:
                r = t.get_row(0, clone=False)
                owners.append(("Row", r))
                if r.width:
                    owners.append(("Cell", r.get_cell(0, clone=False)))
    paras = body.get_paragraphs()
    for p in paras[:1] + paras[-1:]:
        owners.append(("Paragraph", p))
    # paragraphs and headings holding a note: their own text export numbers the notes
    with_note = [p for p in paras + body.get_headers() if p.get_element("descendant::text:note") is not None][:3]
    for p in with_note:
        if all(p is not o for _n, o in owners):
            owners.append((type(p).__name__, p))
    for getter in ("get_headers", "get_lists", "get_frames", "get_notes", "get_tocs", "get_spans", "get_links", "get_sections", "get_draw_pages", "get_annotations"):
        try:
            els = getattr(body, getter)()
        except Exception:
            els = []
        if els:
            owners.append((type(els[0]).__name__, els[0]))
    owners += tracked_owners(body)
    for oname, obj in owners:
        for kind, name in entry_points(obj):
            if big and oname in ("Body", "Document", "Content") and name in ("get_formatted_text", "get_tables", "tables", "text_recursive", "inner_text"):
                pass
            if kind == "prop":
                out.append((oname, name, lambda o=obj, n=name: getattr(o, n)))
            else:
                out.append((oname, name + "()", lambda o=obj, n=name: getattr(o, n)()))
    return out


BIG_UNSAFE = ("str", "get_formatted_text", "to_markdown", "get_values", "iter_values", "get_cells", "traverse", "cells", "rows", "to_csv", "is_empty", "text_recursive", "get_rows", "get_columns", "columns", "get_formated_meta")


def run_document(src, ctx, res, rng):
    doc = DL.open_source(src)
    big = src["kind"] == "sample" and DL.is_big(src["name"])
    if big:
        res.count("skipped_big")
    kind = doc.mimetype.rsplit(".", 1)[-1] + (":" + src["kind"])
    flags = set()
    if not big:
        for t in doc.body.get_tables()[:4]:
            f, _ = table_flags(t)
            flags |= f
    for name, getter in (("notes", "get_notes"), ("toc", "get_tocs"), ("frames", "get_frames"), ("lists", "get_lists"), ("tracked", "get_tracked_changes")):
        try:
            if getattr(doc.body, getter)():
                flags.add(name)
        except Exception:
            pass
    pur = Purity(doc, res, kind, "+".join(sorted(flags)))
    base = pur.digest()
    calls = introspected_calls(doc, rng, big) + explicit_calls(doc, rng, big)
    # building the list reads the document too (get_tables, get_paragraphs, get_named_ranges, the first element of each family)
    res.judge()
    after = pur.digest()
    if after != base:
        changed = sorted(k for k in set(base) | set(after) if base.get(k) != after.get(k))
        hint = DL.first_diff(base.get(changed[0], b"<x/>"), after.get(changed[0], b"<x/>")) if changed and DL.is_xml_name(changed[0]) else {}
        pur.violations.append(("document-changed:enumerating-the-elements", {"parts": changed[:4], "hint": hint, "kind": kind}, {"source": src, "owner": "-", "entry": "-"}))
    if big:
        calls = [c for c in calls if not any(u in c[1] for u in BIG_UNSAFE) and c[0] not in ("Body", "Content") or c[1] in ("size", "name")]
    rng.shuffle(calls)
    if big:
        calls = calls[:40]  # each digest serialises the whole (large) content part
    for owner, name, fn in calls:
        pur.call(owner, name, fn, {"source": src, "owner": owner, "entry": name})
        if len(pur.violations) >= 6:
            break
    for m, d, case in pur.violations:
        res.violation(m, d, case)
    res.count("entry_points_called", len(calls))
    return len(calls)


def gen_sources(ctx):
    srcs = [{"kind": "template", "name": t} for t in DL.TEMPLATES] + [{"kind": "sample", "name": s} for s in DL.sample_files()]
    srcs += [{"kind": "decorated", "base": b} for b in ("text", "simple_table.ods", "note.odt")]
    vbases = list(DL.TEMPLATES) + [s for s in DL.sample_files() if not DL.is_big(s) and s.rsplit(".", 1)[-1] in ("odt", "ods", "odp", "odg")]
    rngv = ctx.rng("variants")
    for i in range(24 if ctx.quick else 1500):
        srcs.append({"kind": "variant", "base": vbases[i % len(vbases)] if i < len(vbases) else rngv.choice(vbases), "seed": i})
    rng = ctx.rng("gen")
    for i in range(12 if ctx.quick else 2500):
        spec = DL.gen_doc_spec(rng, kind="text" if i % 2 else "spreadsheet")
        if spec["type"] == "text":
            spec["table"] = True
            spec["tracked"] = i % 4 == 1
            spec["bare_note"] = i % 4 == 3
            spec["empty_table"] = i % 3 != 2
        srcs.append({"kind": "generated", "spec": spec})
    return srcs


def fresh_parts_case(src, res=None):
    """Exports of XML parts nobody has navigated yet (the document was only opened): serialising a part - plain,
    pretty, again plain - is a read; the plain serialisation must be the same bytes before and after, whichever
    order the parts' roots are first looked at."""
    out = []
    for order in ("export-first", "root-first"):
        doc = DL.open_source(src)
        if src["kind"] == "sample" and DL.is_big(src["name"]):
            return out
        for pname in ("styles", "meta", "settings", "manifest", "content"):
            try:
                part = doc.get_part(pname)
            except Exception:
                continue
            if part is None or not hasattr(part, "pretty_serialize"):
                continue
            try:
                if order == "root-first":
                    part.root
                before = part.serialize()
            except Exception:
                continue  # a part the package does not have (no settings.xml, say)
            for entry, fn in (("serialize(pretty=True)", lambda: part.serialize(pretty=True)), ("pretty_serialize", part.pretty_serialize)):
                first = fn()
                after = part.serialize()
                second = fn()
                if res is not None:
                    res.judge()
                    res.cls(("fresh-part", pname, entry, order), True)
                if after != before:
                    out.append((f"document-changed:XmlPart.{entry}", {"part": pname, "order": order, "bytes_before": len(before), "bytes_after": len(after), "hint": DL.first_diff(before, after)}, {"source": src, "owner": "fresh-part", "entry": entry}))
                    break
                if first != second:
                    out.append((f"second-answer-differs:XmlPart.{entry}", {"part": pname, "order": order}, {"source": src, "owner": "fresh-part", "entry": entry}))
                    break
    return out


def run(ctx, res):
    srcs = gen_sources(ctx)
    for i, src in enumerate(srcs):
        if not ctx.mine(i):
            continue
        rng = ctx.rng("order", i)
        try:
            for m, d, case in fresh_parts_case(src, res)[:2]:
                res.violation(m, d, case)
        except Exception as e:
            import traceback

            res.violation(f"harness-or-open-raised:{type(e).__name__}", {"exc": repr(e), "tb": traceback.format_exc()[-900:]}, {"source": src})
        try:
            n = run_document(src, ctx, res, rng)
        except Exception as e:
            import traceback

            res.violation(f"harness-or-open-raised:{type(e).__name__}", {"exc": repr(e), "tb": traceback.format_exc()[-900:]}, {"source": src})
            continue
        if i < 3:
            res.sample({"source": src, "entry_points": n})


def replay(case):
    import random

    from ..core import Res

    res = Res()
    if case.get("owner") == "fresh-part":
        return [{"mechanism": m, "detail": d} for m, d, _c in fresh_parts_case(case["source"])]
    doc = DL.open_source(case["source"])
    pur = Purity(doc, res, "replay", "")
    big = case["source"]["kind"] == "sample" and DL.is_big(case["source"]["name"])
    base = pur.digest()
    calls = introspected_calls(doc, random.Random(0), big) + explicit_calls(doc, random.Random(0), big)
    if case["owner"] == "-" and pur.digest() != base:
        return [{"mechanism": "document-changed:enumerating-the-elements", "detail": {}}]
    for owner, name, fn in calls:
        if owner == case["owner"] and name == case["entry"]:
            pur.call(owner, name, fn, case)
    return [{"mechanism": m, "detail": d} for m, d, _c in pur.violations]


MANIFEST = {
    "text": "Exploration by runtime monitoring: read-only entry points are enumerated by introspection (properties, get_*/is_*/to_*/as_*/show_* callable without arguments) on the document, its parts, the body, tables, rows, cells, paragraphs and the first element of each family, plus an explicit list with arguments (exports, searches, counting replace, area reads aimed at repeated runs); on every template, sample (bounded tables), decorated package and generated document they are called in random order, each twice, while a purity monitor compares a byte-for-byte digest of every in-memory part before and after each call and the two answers. Held = no call changed the document or answered differently on what was observed. Also: pretty / plain serialisation of parts nobody navigated yet, before and after their root is first looked at.",
    "note": "Trusted: the naming convention that identifies read-only entry points; vf/doclab.memory_state as the digest. Tables declaring more than 20000 cells only run non-expanding entry points (counted as skipped_big).",
    "technique": "runtime monitoring: purity monitor (byte digest of all in-memory parts) around every read-only call + repeatability of answers",
}
