"""C20 - a filled table of contents lists exactly the headings, in order, numbered right.

Monitor shape: reference model (O-OUTLINE: outline counters per level) + independent reader
of the index body (lxml + ODF white-space interpreter) after every fill(); idempotence by
C14N; the heading-listing script must print the same outline."""

import contextlib
import io

from lxml import etree

from ..oracles import odftext
from . import c09

LEVEL = "exploration"
RULE = (
    "Text documents with 0-12 headings of levels 1-10 in any order (monotone, with resets, with skipped "
    "levels, starting deep), heading texts assembled from words, text:s/tab/line-break, spans (nested, empty), "
    "marks, optionally links and footnotes; paragraphs, a section and a table in between; a TOC placed first / "
    "middle / last / inside a section with outline level 0-10 and use_default_styles T/F; histories: fill; "
    "fill again; edit / insert / delete a heading; fill; in a third of the documents a second TOC with its own "
    "title and level, first or last, filled in between (filling one index must leave the other C14N-identical "
    "and keep its own title); fill(other_document) while the TOC still lives in this one (the given document is "
    "the one listed); the outline level changed on the live TOC between two fills (also back to 0 = "
    "no limit). One evaluation = one fill judged: index body = kept "
    "index-title (original title) followed by exactly one text:p per heading with level <= outline level "
    "(0 = 10), in document order, whose ODF reading is '<number> <reading of the heading>' with numbers from "
    "the outline-counter model and nothing else; a second fill leaves the TOC C14N-identical; "
    "scripts.headers prints the same outline for depths 1..10/999. Class = (level-sequence shape, heading "
    "markup classes, outline level, TOC position, fill index, history step)."
)
SHARDS = {"quick": 16, "thorough": 16}
TIMEOUT = {"quick": 400, "thorough": 7200}
MIN_EVALS = {"quick": 12000, "thorough": 200000}
CASES = {"quick": 500, "thorough": 60000}
ASSUMPTIONS = [
    "skipped levels: missing ancestors count as 1 (the convention TOC._header_numbering and scripts/headers.py both document); another convention is not demanded",
    "the heading's text is its ODF reading with footnotes/annotations/frames opaque",
    "headings always carry text:outline-level 1..10",
]
REACH = [
    ("odfdo.toc", "TOC.fill", True),
    ("odfdo.toc", "TOC._header_numbering", True),
    ("odfdo.scripts.headers", "header_numbering", True),
    ("odfdo.scripts.headers", "headers_document", True),
]
TX = odftext.TX


def outline_numbers(levels, max_level):
    """O-OUTLINE: -> [(index in levels, 'n.n.n.')] for headings with level <= max_level."""
    c = {}
    out = []
    for i, L in enumerate(levels):
        if L > max_level:
            continue
        for k in range(1, L):
            c.setdefault(k, 1)
        c[L] = c.get(L, 0) + 1
        for k in [k for k in c if k > L]:
            del c[k]
        out.append((i, ".".join(str(c[k]) for k in range(1, L + 1)) + "."))
    return out


def shape(levels):
    if not levels:
        return "none"
    tags = set()
    if levels[0] > 1:
        tags.add("starts-deep")
    for a, b in zip(levels, levels[1:]):
        if b > a + 1:
            tags.add("skip")
        if b < a:
            tags.add("reset")
        if b == a:
            tags.add("same")
    if any(b < a - 1 for a, b in zip(levels, levels[1:])):
        tags.add("deep-reset")
    return "+".join(sorted(tags)) or "monotone"


def gen_heading(rng):
    pieces = [p for p in c09.gen_pieces(rng) if p[0] != "note"]
    r = rng.random()
    if r < 0.75:
        pieces = [p for p in pieces if p[0] not in ("link", "emptylink")]
    if r > 0.9:
        pieces.append(("note", ["gamma"]))
    if not pieces:
        pieces = [("w", ["alpha"])]
    return {"level": rng.choice([1, 1, 2, 2, 3, 3, 4, 5, 7, 10]), "pieces": pieces}


def heading_xml(h):
    xml = c09.pieces_xml([tuple(p) for p in h["pieces"]], heading=True)
    return xml.replace('text:outline-level="1"', f'text:outline-level="{h["level"]}"')


def build_document(spec):
    from odfdo import Document, Element, Paragraph, Section, Table
    from odfdo.toc import TOC

    doc = Document("text")
    body = doc.body
    body.clear()
    toc = TOC(title=spec["title"], outline_level=spec["outline"])
    items = []
    for i, h in enumerate(spec["headings"]):
        items.append(("h", h))
        if i % 2 == 0:
            items.append(("p", f"paragraph {i}"))
    pos = {"first": 0, "last": len(items), "middle": len(items) // 2, "section": len(items) // 2}[spec["toc_pos"]]
    items.insert(pos, ("toc", None))
    sec = None
    for kind, x in items:
        if kind == "h":
            el = Element.from_tag(heading_xml(x))
            if spec.get("in_section") and x is spec["headings"][-1]:
                if sec is None:
                    sec = Section(name="S1")
                    body.append(sec)
                sec.append(el)
            else:
                body.append(el)
        elif kind == "p":
            body.append(Paragraph(x))
        else:
            if spec["toc_pos"] == "section":
                s2 = Section(name="STOC")
                s2.append(toc)
                body.append(s2)
            else:
                body.append(toc)
    if spec.get("table"):
        t = Table("T", 2, 1)
        body.append(t)
    if spec.get("toc2"):
        # another table of contents with its own title and outline level, before or after everything else
        toc2 = TOC(title=spec["toc2"]["title"], outline_level=spec["toc2"]["outline"], name="Second index")
        if spec["toc2"]["where"] == "first":
            body.insert(toc2, position=0)
        else:
            body.append(toc2)
        doc._vf_toc2 = toc2
    if spec.get("indented"):
        # the document as an indenting producer (or a pretty save reopened) holds it: line ends and blanks
        # between the blocks of office:text and of sections - ignorable there, never part of a heading
        body_n = c09.node(body)
        for e in body_n.iter():
            if isinstance(e.tag, str) and e.getparent() is not None and e.getparent().tag in (body_n.tag, TX + "section") and e.tag in (TX + "h", TX + "p", TX + "section"):
                e.tail = "\n" + "  " * (1 + sum(1 for _ in e.iterancestors(TX + "section")))
    return doc, toc


def heading_classes(n):
    k = set()
    for e in n.iter():
        if not isinstance(e.tag, str):
            continue
        loc = e.tag.rpartition("}")[2]
        if loc in ("s", "tab", "line-break"):
            k.add("ws")
        elif loc == "span":
            k.add("span")
        elif loc == "a":
            k.add("link")
        elif loc == "note":
            k.add("note")
        elif loc in ("bookmark", "reference-mark"):
            k.add("mark")
    return k


def judge_fill(doc, toc, spec, fill_index, use_default_styles, title=None, outline=None, which="toc1", explicit=False):
    """-> (violations [(mechanism, detail, known)], classes)"""
    import copy

    out = []
    title = spec["title"] if title is None else title
    outline = spec["outline"] if outline is None else outline
    body_n = c09.node(doc.body)
    toc_n = c09.node(toc)
    others = [t for t in body_n.iter(TX + "table-of-content") if t is not toc_n]
    others_before = [etree.tostring(copy.deepcopy(t), method="c14n") for t in others]
    if explicit:
        toc.fill(doc, use_default_styles=use_default_styles)  # the document to list is given: it wins over where the TOC lives
    else:
        toc.fill(use_default_styles=use_default_styles)
    toc_n = c09.node(toc)
    for t, b in zip(others, others_before):
        if etree.tostring(copy.deepcopy(t), method="c14n") != b:
            out.append(("toc:filling-one-index-changed-another", {"filled": which, "other_before": b.decode()[-300:], "other_after": etree.tostring(t, encoding="unicode")[-300:]}, None))
    heads = [h for h in body_n.iter(TX + "h") if not any(a.tag == TX + "table-of-content" for a in h.iterancestors())]
    levels = [int(h.get(TX + "outline-level") or 0) for h in heads]
    maxl = outline or 10
    expected = []
    flagged = []
    for i, num in outline_numbers(levels, maxl):
        expected.append(f"{num} {odftext.project(heads[i])}")
        flagged.append(heading_classes(heads[i]))
    ib = toc_n.find(TX + "index-body")
    if ib is None:
        return [("toc:no-index-body", {}, None)], ("fill",)
    kids = [k for k in ib if isinstance(k.tag, str)]
    entries = kids
    if title:
        if not kids or kids[0].tag != TX + "index-title":
            out.append(("toc:title-not-kept-first", {"children": [k.tag.rpartition("}")[2] for k in kids[:3]]}, None))
        else:
            tt = " ".join(odftext.project(p) for p in kids[0].iter(TX + "p"))
            if tt != title:
                out.append(("toc:title-text-changed", {"got": tt, "expected": title, "filled": which}, None))
            entries = kids[1:]
    other = [k.tag.rpartition("}")[2] for k in entries if k.tag != TX + "p"]
    if other:
        out.append(("toc:unexpected-children", {"children": other[:4]}, None))
    got = [odftext.project(p) for p in entries if p.tag == TX + "p"]
    if len(got) != len(expected):
        out.append(("toc:entry-count", {"got": got, "expected": expected, "levels": levels, "outline": maxl}, None))
    else:
        for k, (g, e) in enumerate(zip(got, expected)):
            if g != e:
                fid = None
                if "link" in flagged[k] or "note" in flagged[k]:
                    fid = "F-P3b"
                gnum, enum = g.split(" ", 1)[0], e.split(" ", 1)[0]
                what = "number" if gnum != enum else "text"
                out.append((f"toc:entry-{what}-differs", {"entry": k, "got": g, "expected": e, "levels": levels, "xml": etree.tostring(entries[k], encoding="unicode")[-300:]}, fid if what == "text" else None))
                break
    cls = ("fill", shape(levels), "+".join(sorted(set().union(*flagged))) if flagged else "-", f"outline={outline}", spec["toc_pos"], f"fill{fill_index}", "styles" if use_default_styles else "nostyles", which if spec.get("toc2") else "single")
    return out, cls


def judge_script(doc, spec):
    """scripts/headers.py must print the same outline."""
    from odfdo.scripts import headers as H

    out = []
    body_n = c09.node(doc.body)
    tocs = [t for t in body_n.iter(TX + "table-of-content")]
    heads = [h for h in body_n.iter(TX + "h")]
    for depth in (1, 2, 3, 10, 999):
        buf = io.StringIO()
        with contextlib.redirect_stdout(buf):
            H.headers_document(doc, depth)
        levels = [int(h.get(TX + "outline-level") or 0) for h in heads]
        exp = "".join(f"{num} {odftext.project(heads[i])}\n" for i, num in outline_numbers(levels, depth))
        if buf.getvalue() != exp:
            has_link = any(heading_classes(h) & {"link", "note"} for h in heads)
            out.append(("headers-script:outline-differs", {"depth": depth, "got": buf.getvalue()[:400], "expected": exp[:400]}, "F-P3b" if has_link else None))
            break
    return out


def run_case(spec, res):
    from odfdo import Element

    doc, toc = build_document(spec)
    uds = spec["use_default_styles"]
    fi = 0
    outline = {"toc1": spec["outline"], "toc2": (spec.get("toc2") or {}).get("outline", 0)}
    primary = toc
    for step in spec["history"]:
        if isinstance(step, list) and step[0] == "outline":
            # the level is changed on the live index, the next fill must follow it
            which = step[2] if spec.get("toc2") else "toc1"
            (primary if which == "toc1" else doc._vf_toc2).outline_level = step[1]
            outline[which] = step[1]
            continue
        if step == "fill-for-another-document":
            # the TOC still lives in this document but is asked to list another one (then typically moved there)
            other_spec = dict(spec, headings=spec["other_headings"], toc2=None, toc_pos="last", in_section=False, table=False)
            other_doc, other_toc = build_document(other_spec)
            other_toc.delete()
            v, cls = judge_fill(other_doc, primary, spec, fi, uds, title=spec["title"], outline=outline["toc1"], which="toc1-for-other-document", explicit=True)
            if res is not None:
                res.judge()
                res.cls(("fill-other-document",) + tuple(cls[1:4]), True)
            if v:
                return v
            continue
        if step in ("fill", "fill2"):
            which = "toc2" if step == "fill2" and spec.get("toc2") else "toc1"
            toc = primary if which == "toc1" else doc._vf_toc2
            title = spec["title"] if which == "toc1" else spec["toc2"]["title"]
            v, cls = judge_fill(doc, toc, spec, fi, uds, title=title, outline=outline[which], which=which)
            if res is not None:
                res.judge()
                res.cls(cls, True)
            if v:
                return v
            if fi > 0 or True:
                import copy

                before = etree.tostring(copy.deepcopy(c09.node(toc)), method="c14n")
                toc.fill(use_default_styles=uds)
                after = etree.tostring(copy.deepcopy(c09.node(toc)), method="c14n")
                if res is not None:
                    res.judge()
                    res.cls(("refill", cls[1], cls[3]), True)
                if before != after:
                    return [("toc:second-fill-changed-the-toc", {"before": before.decode()[-400:], "after": after.decode()[-400:]}, None)]
            fi += 1
        elif step == "script":
            v = judge_script(doc, spec)
            if res is not None:
                res.judge()
                res.cls(("script", shape([h["level"] for h in spec["headings"]])), True)
            if v:
                return v
        else:
            kind, k, h = step
            heads = doc.body.get_headers()
            heads = [x for x in heads if not any(a.tag == TX + "table-of-content" for a in c09.node(x).iterancestors())]
            if kind == "delete" and heads:
                heads[k % len(heads)].delete()
            elif kind == "insert":
                el = Element.from_tag(heading_xml(h))
                if heads:
                    ref = heads[k % len(heads)]
                    par = ref.parent
                    par.insert(el, position=par.index(ref))
                else:
                    doc.body.append(el)
            elif kind == "edit" and heads:
                heads[k % len(heads)].set_attribute("text:outline-level", str(h["level"]))
                heads[k % len(heads)].append(" edited")
    return None


def gen_spec(rng):
    n = rng.choice([0, 1, 2, 3, 4, 6, 8, 12])
    headings = [gen_heading(rng) for _ in range(n)]
    history = ["fill"]
    for _ in range(rng.randint(0, 2)):
        history.append([rng.choice(["delete", "insert", "edit"]), rng.randrange(100), gen_heading(rng)])
        history.append("fill")
    toc2 = None
    if rng.random() < 0.35:
        toc2 = {"title": rng.choice(["Overview", "Second é", "Index 2"]), "outline": rng.choice([0, 1, 2, 10]), "where": rng.choice(["first", "last"])}
        history.insert(rng.randint(0, len(history)), "fill2")
        if rng.random() < 0.5:
            history.append(rng.choice(["fill", "fill2"]))
    if rng.random() < 0.4:
        # change of the requested level between two fills (0 = no limit)
        k = rng.randint(1, len(history))
        history.insert(k, ["outline", rng.choice([0, 0, 1, 2, 3, 10]), rng.choice(["toc1", "toc2"])])
        history.insert(k + 1, rng.choice(["fill", "fill2"]) if toc2 else "fill")
    other_headings = []
    if rng.random() < 0.2:
        other_headings = [gen_heading(rng) for _ in range(rng.choice([1, 2, 3, 5]))]
        history.insert(rng.randint(0, len(history)), "fill-for-another-document")
        history.append("fill")
    if rng.random() < 0.6:
        history.append("script")
    return {
        "other_headings": other_headings,
        "toc2": toc2,
        "headings": headings,
        "title": rng.choice(["Table of Contents", "Sommaire é", "TOC"]),
        "outline": rng.choice([0, 0, 1, 2, 3, 5, 10]),
        "toc_pos": rng.choice(["first", "middle", "last", "section"]),
        "in_section": rng.random() < 0.3,
        "table": rng.random() < 0.2,
        "use_default_styles": rng.random() < 0.6,
        "history": history,
        "indented": rng.random() < 0.3,
    }


def run(ctx, res):
    for c in range(CASES[ctx.tier]):
        rng = ctx.rng(c)
        spec = gen_spec(rng)
        try:
            v = run_case(spec, res)
        except Exception as e:
            import traceback

            v = [(f"raised:{type(e).__name__}", {"exc": repr(e), "tb": traceback.format_exc()[-900:]}, None)]
        if c < 2:
            res.sample({"levels": [h["level"] for h in spec["headings"]], "outline": spec["outline"], "toc_pos": spec["toc_pos"], "history": [s if isinstance(s, str) else s[0] for s in spec["history"]]})
        if v:
            m, d, fid = v[0]
            res.violation(m, d, {"spec": spec}, known=fid)


def replay(case):
    v = run_case(case["spec"], None)
    return [{"mechanism": m, "detail": d, "known": fid} for m, d, fid in (v or [])]


MANIFEST = {
    "text": "Exploration by runtime monitoring: generated text documents (0-12 headings of levels 1-10 in any order, heading texts with white-space elements, spans, marks, links, footnotes; TOC first/middle/last/in a section; outline level 0-10) go through histories of fill, refill and heading edits; after every fill an independent reader (lxml + ODF white-space interpreter) compares the index body with the entries computed by an outline-counter model from the headings found in the XML (kept title, exactly one entry per eligible heading, in order, number + space + heading reading, nothing else), a second fill must leave the TOC C14N-identical, and scripts/headers.py must print the same outline for several depths. Held = model and implementation agreed on the fills observed, apart from listed known findings.",
    "note": "Trusted: the outline-counter model with the documented skipped-level convention; vf/oracles/odftext.py as the reading of heading and entry text.",
    "technique": "runtime monitoring: reference model of outline numbering + independent reader of the produced index body, idempotence by C14N",
}
