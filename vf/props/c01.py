"""C01 - the table API behaves like a plain grid under every history.

Monitor shape: history + executable model (O-GRID, DESIGN Appendix A).  After every public
operation every read route of the live table is compared with the model."""

from .. import tablehist as TH
from .. import tablelab as TL

LEVEL = "exploration"
RULE = (
    "Generated histories of public Table/Row operations (23 kinds) on initial tables {empty, WxH, random "
    "run-length recipe (rows/cells/columns repeated 1-4, occasionally 40, ragged), sample .ods/.odt tables, "
    "recipe saved to BytesIO and reopened}; coordinates aimed through the current XML encoding at first/"
    "middle/last items of repeated runs, the edge and beyond, in tuple / 'C4' / negative form. One evaluation "
    "= one step whose full read-out (size, get_values, get_value, get_cell, get_row, get_row_values, "
    "get_column_values, get_column_cells, area, iter_values, traverse, Row.width, flat) was compared with the "
    "O-GRID model. A situation class = (operation, shape of the targeted row run, shape of the targeted "
    "cell/column run, argument repeat>1, argument spills over the run end, next run repeated, caches warmed "
    "by); non-trivial = anything but an unrepeated argument on unrepeated targets."
)
SHARDS = {"quick": 16, "thorough": 16}
TIMEOUT = {"quick": 300, "thorough": 5400}
MIN_EVALS = {"quick": 8000, "thorough": 150000}
CASES = {"quick": 160, "thorough": 4000}  # per shard
STEPS = {"quick": 10, "thorough": 24}
ASSUMPTIONS = [
    "O-GRID (DESIGN Appendix A) is the meaning of 'plain grid'; deleting the last declared column and "
    "live Cell.repeated edits are not generated",
    "tables bounded to ~14x14 logical cells, repeats <= 4 (1% 40), histories <= 10/24 steps",
]
REACH = [
    ("odfdo.element_cached", "set_item_in_vault", True),
    ("odfdo.element_cached", "insert_item_in_vault", True),
    ("odfdo.element_cached", "delete_item_in_vault", True),
    ("odfdo.element_cached", "find_odf_idx", True),
    ("odfdo.table", "Table.set_cell", True),
    ("odfdo.table", "Table.insert_cell", True),
    ("odfdo.table", "Table.append_cell", True),
    ("odfdo.table", "Table.delete_cell", True),
    ("odfdo.table", "Table.insert_column", True),
    ("odfdo.table", "Table.delete_column", True),
    ("odfdo.table", "Table._update_width", True),
    ("odfdo.table", "Table.set_row", True),
    ("odfdo.table", "Table.insert_row", True),
    ("odfdo.table", "Table.delete_row", True),
    ("odfdo.row", "Row.set_cell", True),
]


def _on_step(res, rng):
    def on_step(i, t, g, op, info):
        res.judge()
        res.cls(info["cls"], info["nontrivial"])
        v = TH.check_reads(t, g, rng, full=True)
        return v

    return on_step


def run(ctx, res):
    n = CASES[ctx.tier]
    for c in range(n):
        rng = ctx.rng(c)
        vals = TL.Vals()
        case = {"init": TH.gen_init(rng, vals)}
        steps = rng.randint(3, STEPS[ctx.tier])
        try:
            case, v = TH.run_case(case, _on_step(res, rng), gen=(rng, vals, steps, 0.3))
        except ValueError as e:
            if "too big" in str(e):
                res.count("skipped_big")
                continue
            raise
        if c < 2:
            res.sample({"init": case["init"], "ops": [s["op"] for s in case["steps"]][:6]})
        if v:
            for m, d in v[:1]:
                res.violation(f"{m}@{(d.get('op') or {}).get('op', 'init')}" if isinstance(d, dict) else m, d, {"case": case, "seedkey": [ctx.seed, ctx.shard, c]})
        res.count("histories")


def replay(case):
    import random

    rng = random.Random(0)
    out = []

    def on_step(i, t, g, op, info):
        return TH.check_reads(t, g, rng, full=True)

    _c, v = TH.run_case(case["case"], on_step, gen=None)
    for m, d in v or []:
        out.append({"mechanism": m, "detail": d})
    return out

MANIFEST = {
    "text": "Exploration by runtime monitoring: the real Table/Row code is driven through thousands of generated operation histories (steered onto repeated runs, edges and beyond-edge coordinates) while a shadow list-of-lists model (O-GRID) is advanced in lock-step; after every step 13 read routes of the live table are compared with the model. Held = no divergence on the histories observed, with the reach monitor confirming every anchored mechanism ran; this is evidence over the executions produced, not a proof over all histories.",
    "note": "Trusted: the O-GRID transition table (DESIGN Appendix A) as the meaning of 'plain grid'; lxml; the bounded generators (<= ~14x14 cells, repeats <= 4, occasionally 40, <= 10/24 steps). Out of reach: row/column groups, live Cell/Column repeat edits, deleting the last declared column.",
    "technique": "runtime monitoring: shadow reference model in lock-step with generated API histories + sys.monitoring reach monitor",
}
