"""C02 - what a table answers in memory is what its own XML says when parsed afresh.

Monitor shape: invariant at the quiescent point after every public call: three answers
(live / fresh parse / independent lxml expansion) must agree pairwise; position maps must
equal the maps recomputed from the XML; cached wrappers must not be orphans."""

from .. import tablehist as TH
from .. import tablelab as TL

LEVEL = "exploration"
RULE = (
    "The C01 histories with cache-warming reads (get_row, get_row(clone=False)+get_cell(clone=False), get_cell, "
    "traverse, Row.traverse, get_column, traverse_columns, get_values, get_column_cells) interleaved before 60% "
    "of the mutations; 30% of the tables live inside a Document that is saved to BytesIO and reloaded after "
    "every step. One evaluation = one step at whose end live answers (size, matrix, get_value, get_cell, "
    "get_row, row widths, get_column_values, get_column) were compared with the fresh parse and with O-TABXML, "
    "and _tmap/_cmap/_rmap and every cached Row/Cell/Column wrapper were compared with the XML. Class = C01 "
    "situation class x set of caches warmed; non-trivial = repeated target/argument or any warm cache. "
    "Besides: tables holding another generated table in one of their cells; the inner table reached through "
    "the outer table, row and cell (get_elements, get_element, xpath) must answer like a fresh parse of its own "
    "XML and like O-TABXML."
)
SHARDS = {"quick": 16, "thorough": 16}
TIMEOUT = {"quick": 300, "thorough": 5400}
MIN_EVALS = {"quick": 6000, "thorough": 150000}
CASES = {"quick": 130, "thorough": 5000}
STEPS = {"quick": 10, "thorough": 24}
ASSUMPTIONS = [
    "tables bounded as in C01; two live wrappers around one lxml node are a documented non-goal and not generated",
    "the independent reader honours table-rows/table-header-rows wrappers and ignores row/column groups, as odfdo documents",
]
REACH = [
    ("odfdo.element_cached", "set_item_in_vault", True),
    ("odfdo.element_cached", "insert_item_in_vault", True),
    ("odfdo.element_cached", "delete_item_in_vault", True),
    ("odfdo.table", "Table._compute_table_cache", True),
    ("odfdo.row", "Row._compute_row_cache", True),
    ("odfdo.row", "Row.repeated", False),
    ("odfdo.element_cached", "CachedElement.clear", True),
    ("odfdo.element", "Element.elements_repeated_sequence", True),
    ("odfdo.table", "Table._get_row2_base", True),
    ("odfdo.row", "Row._get_cell2_base", True),
]


def _on_step(res, rng):
    def on_step(i, t, g, op, info):
        res.judge()
        nt = info["nontrivial"] or bool(info.get("warm"))
        res.cls(info["cls"], nt)
        return TH.check_coherence(t, rng, doc=getattr(t, "_vf_doc", None))

    return on_step


def nested_case(case, res=None):
    """A table that holds another table in one of its cells (legal in text documents): the inner table
    reached through the outer one must answer like a fresh parse of its own XML.
    case = {"outer": recipe, "inner": recipe, "at": [x, y]}"""
    from odfdo import Cell, Element

    from ..oracles import tabxml

    outer = TL.build_table(case["outer"], name="outer")
    inner = TL.build_table(case["inner"], name="inner")
    W, H = outer.size
    x, y = case["at"][0] % max(W, 1), case["at"][1] % max(H, 1)
    cell = Cell()
    cell.append(inner)
    outer.set_cell((x, y), cell)
    out = []
    routes = {
        "outer.get_elements(descendant::table:table)": lambda: outer.get_elements("descendant::table:table"),
        "row.get_elements(descendant::table:table)": lambda: outer.get_row(y, clone=False).get_elements("descendant::table:table"),
        "cell.get_elements(table:table)": lambda: outer.get_cell((x, y), clone=False).get_elements("table:table"),
        "outer.get_element": lambda: [outer.get_element("descendant::table:table")],
        "outer.xpath": lambda: outer.xpath("descendant::table:table"),
    }
    for route, fn in routes.items():
        if res is not None:
            res.judge()
            res.cls(("nested-table", route), True)
        try:
            got = fn()
            if len(got) != 1:
                out.append((f"nested:{route}:count", {"count": len(got)}))
                continue
            live = got[0]
            fresh = Element.from_tag(live.serialize(with_ns=True))
            w, rows = tabxml.expand(tabxml.parse(live.serialize(with_ns=True)))
            exp_vals = [list(r) + [None] * (w - len(r)) for r in rows]
            if tuple(live.size) != tuple(fresh.size) or tuple(live.size) != (w, len(rows)):
                out.append((f"nested:{route}:size", {"live": list(live.size), "fresh": list(fresh.size), "xml": [w, len(rows)]}))
            elif not TL.matrix_equal(live.get_values(), fresh.get_values()) or not TL.matrix_equal(live.get_values(), exp_vals):
                out.append((f"nested:{route}:values", {"live": live.get_values(), "fresh": fresh.get_values()}))
            # the rows of the inner table, reached through the outer one
            for r_live, r_fresh in zip(live.get_rows(), fresh.get_rows()):
                if r_live.width != r_fresh.width or not TL.matrix_equal([r_live.get_values()], [r_fresh.get_values()]):
                    out.append((f"nested:{route}:row", {"live": r_live.get_values(), "fresh": r_fresh.get_values()}))
                    break
        except Exception as e:
            out.append((f"nested:{route}:raised:{type(e).__name__}", {"exc": repr(e)}))
    # the outer table is not disturbed by what it holds
    fresh_outer = Element.from_tag(outer.serialize(with_ns=True))
    if tuple(outer.size) != tuple(fresh_outer.size) or not TL.matrix_equal(outer.get_values(), fresh_outer.get_values()):
        out.append(("nested:outer-differs-from-fresh-parse", {"live": list(outer.size), "fresh": list(fresh_outer.size)}))
    return out


def foreign_case(case, res=None):
    """A table as another producer may write it: fewer table:table-column declared than the rows hold cells
    ("Rows may have different widths"; odfdo reads it). No grid model is defined for such a table, so only the
    C02 relation is judged: after cache-warming reads and each edit that does not raise, live answers = fresh
    parse of the table's own XML = independent expansion.
    case = {"cols": [repeat...], "rows": [[row_repeat, [[value, cell_repeat]...]]...], "ops": [...]}"""
    import random

    from odfdo import Column, Element, Row

    T = 'xmlns:table="urn:oasis:names:tc:opendocument:xmlns:table:1.0" xmlns:office="urn:oasis:names:tc:opendocument:xmlns:office:1.0" xmlns:text="urn:oasis:names:tc:opendocument:xmlns:text:1.0"'
    xml = [f'<table:table {T} table:name="F">']
    for r in case["cols"]:
        xml.append("<table:table-column" + (f' table:number-columns-repeated="{r}"' if r > 1 else "") + "/>")
    for rr, cells in case["rows"]:
        xml.append("<table:table-row" + (f' table:number-rows-repeated="{rr}"' if rr > 1 else "") + ">")
        for v, cr in cells:
            rep = f' table:number-columns-repeated="{cr}"' if cr > 1 else ""
            if v is None:
                xml.append(f"<table:table-cell{rep}/>")
            else:
                xml.append(f'<table:table-cell{rep} office:value-type="float" office:value="{v}"><text:p>{v}</text:p></table:table-cell>')
        xml.append("</table:table-row>")
    xml.append("</table:table>")
    t = Element.from_tag("".join(xml))
    rng = random.Random(case.get("k", 0))
    out = TH.check_coherence(t, rng)
    if out:
        return [("foreign:" + m, d) for m, d in out]
    for i, op in enumerate(case["ops"]):
        o = op["op"]
        try:
            for w in op.get("warm", []):
                if w == "get_row":
                    t.get_row(op.get("y", 0) % max(t.height, 1))
                elif w == "get_values":
                    t.get_values()
                elif w == "get_cell":
                    t.get_cell((op.get("x", 0), op.get("y", 0) % max(t.height, 1)))
                elif w == "traverse":
                    [r.get_values() for r in t.traverse()]
                elif w == "columns":
                    list(t.traverse_columns())
            if o == "insert_column":
                t.insert_column(op["x"], Column() if op.get("obj") else None)
            elif o == "append_column":
                t.append_column(Column() if op.get("obj") else None)
            elif o == "delete_column":
                t.delete_column(op["x"])
            elif o == "set_value":
                t.set_value((op["x"], op["y"] % max(t.height, 1)), op["v"])
            elif o == "insert_row":
                t.insert_row(op["y"] % (t.height + 1), Row(op.get("w", 1)))
            elif o == "delete_row":
                t.delete_row(op["y"] % max(t.height, 1))
            elif o == "append_row":
                t.append_row(Row(op.get("w", 1)))
            elif o == "set_column_values":
                t.set_column_values(op["x"], [op["v"]] * t.height)
            elif o == "insert_cell":
                from odfdo import Cell

                t.insert_cell((op["x"], op["y"] % max(t.height, 1)), Cell(op["v"]))
        except Exception:
            # undefined territory ("Longer rows shouldn't exist!"): a refusal is not judged, the state after it is
            if res is not None:
                res.count("foreign_op_raised")
        if res is not None:
            res.judge()
            res.cls(("foreign-underdeclared", o, "+".join(op.get("warm", [])) or "cold", "x-vs-declared=" + ("?" if "x" not in op else "in" if op["x"] < sum(case["cols"]) else "edge" if op["x"] == sum(case["cols"]) else "beyond")), True)
        v = TH.check_coherence(t, rng)
        if v:
            return [("foreign:" + m + "@" + o, dict(d, step=i, op=op) if isinstance(d, dict) else d) for m, d in v]
    return []


def gen_foreign(rng):
    ncols = rng.choice([[1], [2], [1, 1], [2, 1], [3]])
    declared = sum(ncols)
    rows = []
    for _ in range(rng.randint(1, 4)):
        cells = []
        width = 0
        target = declared + rng.randint(0, 3)
        while width < target:
            cr = rng.choice([1, 1, 1, 2, 3])
            cells.append([rng.choice([None, rng.randint(1, 99)]), cr])
            width += cr
        rows.append([rng.choice([1, 1, 2, 3]), cells])
    ops = []
    for _ in range(rng.randint(1, 5)):
        ops.append({
            "op": rng.choice(["insert_column", "insert_column", "append_column", "delete_column", "set_value", "insert_row", "delete_row", "append_row", "set_column_values", "insert_cell"]),
            "x": rng.randint(0, declared + 3), "y": rng.randrange(12), "v": rng.randint(100, 999), "w": rng.randint(1, declared + 2), "obj": rng.random() < 0.5,
            "warm": rng.sample(["get_row", "get_values", "get_cell", "traverse", "columns"], rng.randint(0, 3)),
        })
    return {"cols": ncols, "rows": rows, "ops": ops, "k": rng.randrange(10**6)}


def run(ctx, res):
    for c in range(60 if ctx.quick else 4000):
        rng = ctx.rng("foreign", c)
        case = {"foreign": gen_foreign(rng)}
        try:
            v = foreign_case(case["foreign"], res)
        except Exception as e:
            import traceback

            v = [(f"foreign:harness-raised:{type(e).__name__}", {"tb": traceback.format_exc()[-800:]})]
        for m, d in v[:1]:
            res.violation(m, d, {"case": case})
    for c in range(20 if ctx.quick else 400):
        rng = ctx.rng("nested", c)
        vals = TL.Vals()
        case = {"nested": {"outer": TL.gen_recipe(rng, vals), "inner": TL.gen_recipe(rng, vals), "at": [rng.randrange(50), rng.randrange(50)]}}
        try:
            v = nested_case(case["nested"], res)
        except Exception as e:
            import traceback

            v = [(f"nested:harness-raised:{type(e).__name__}", {"tb": traceback.format_exc()[-800:]})]
        for m, d in v[:1]:
            res.violation(m, d, {"case": case})
    for c in range(CASES[ctx.tier]):
        rng = ctx.rng(c)
        vals = TL.Vals()
        init = TH.gen_init(rng, vals)
        if init["kind"] == "recipe":
            init["via_document"] = rng.random() < 0.3
        case = {"init": init}
        steps = rng.randint(3, STEPS[ctx.tier])
        try:
            case, v = TH.run_case(case, _on_step(res, rng), gen=(rng, vals, steps, 0.6))
        except ValueError as e:
            if "too big" in str(e):
                res.count("skipped_big")
                continue
            raise
        if c < 2:
            res.sample({"init": case["init"], "steps": case["steps"][:5]})
        if v:
            m, d = v[0]
            # exceptions of the mutators themselves are C01's business unless a cache was warm
            op = (d.get("op") or {}).get("op", "init") if isinstance(d, dict) else "?"
            res.violation(f"{m}@{op}", d, {"case": case, "seedkey": [ctx.seed, ctx.shard, c]})
        res.count("histories")
        if getattr(case, "doc", None):
            res.count("in_document")
    res.count("state_invariants_checked", TH.STATE_INVARIANTS["checked"])
    res.count("state_invariants_unavailable", TH.STATE_INVARIANTS["unavailable"])


def replay(case):
    import random

    rng = random.Random(0)
    if "nested" in case["case"]:
        return [{"mechanism": m, "detail": d} for m, d in nested_case(case["case"]["nested"])]
    if "foreign" in case["case"]:
        return [{"mechanism": m, "detail": d} for m, d in foreign_case(case["case"]["foreign"])]

    def on_step(i, t, g, op, info):
        return TH.check_coherence(t, rng, doc=getattr(t, "_vf_doc", None))

    _c, v = TH.run_case(case["case"], on_step, gen=None)
    return [{"mechanism": m, "detail": d} for m, d in (v or [])]


MANIFEST = {
    "text": "Exploration by runtime monitoring: after every public operation of generated histories (with cache-warming reads interleaved) an invariant monitor compares the live object's answers with a fresh parse of its own serialisation and with an independent lxml expansion, recomputes the position maps from the XML and walks the wrapper caches for orphans; tables inside a document are saved and reloaded after each step. Held = no disagreement on the steps observed. Also: tables of another producer declaring fewer columns than their rows hold cells, edited after cache-warming reads (live = fresh parse = independent expansion only).",
    "note": "Trusted: lxml, the independent expander (vf/oracles/tabxml.py) for the subset of ODF table structure odfdo documents; generator bounds as C01. The monitor reads the private maps (_tmap/_cmap/_rmap/_indexes) only to state the invariant the property names.",
    "technique": "runtime monitoring: state invariant at quiescent points + independent reader of the produced XML",
}
