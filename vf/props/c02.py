"""C02 - what a table answers in memory is what its own XML says when parsed afresh.

Monitor shape: invariant at the quiescent point after every public call: three answers
(live / fresh parse / independent lxml expansion) must agree pairwise; position maps must
equal the maps recomputed from the XML; cached wrappers must not be orphans."""

from .. import tablehist as TH
from .. import tablelab as TL

LEVEL = "exploration"
RULE = (
    "The C01 histories with cache-warming reads (get_row, get_row(clone=False)+get_cell(clone=False), get_cell, "
    "traverse, Row.traverse, get_column, traverse_columns, get_values, get_column_cells) interleaved before 60% "
    "of the mutations; 30% of the tables live inside a Document that is saved to BytesIO and reloaded after "
    "every step. One evaluation = one step at whose end live answers (size, matrix, get_value, get_cell, "
    "get_row, row widths, get_column_values, get_column) were compared with the fresh parse and with O-TABXML, "
    "and _tmap/_cmap/_rmap and every cached Row/Cell/Column wrapper were compared with the XML. Class = C01 "
    "situation class x set of caches warmed; non-trivial = repeated target/argument or any warm cache."
)
SHARDS = {"quick": 16, "thorough": 16}
TIMEOUT = {"quick": 300, "thorough": 5400}
MIN_EVALS = {"quick": 6000, "thorough": 150000}
CASES = {"quick": 130, "thorough": 5000}
STEPS = {"quick": 10, "thorough": 24}
ASSUMPTIONS = [
    "tables bounded as in C01; two live wrappers around one lxml node are a documented non-goal and not generated",
    "the independent reader honours table-rows/table-header-rows wrappers and ignores row/column groups, as odfdo documents",
]
REACH = [
    ("odfdo.element_cached", "set_item_in_vault", True),
    ("odfdo.element_cached", "insert_item_in_vault", True),
    ("odfdo.element_cached", "delete_item_in_vault", True),
    ("odfdo.table", "Table._compute_table_cache", True),
    ("odfdo.row", "Row._compute_row_cache", True),
    ("odfdo.row", "Row.repeated", False),
    ("odfdo.element_cached", "CachedElement.clear", True),
    ("odfdo.element", "Element.elements_repeated_sequence", True),
    ("odfdo.table", "Table._get_row2_base", True),
    ("odfdo.row", "Row._get_cell2_base", True),
]


def _on_step(res, rng):
    def on_step(i, t, g, op, info):
        res.judge()
        nt = info["nontrivial"] or bool(info.get("warm"))
        res.cls(info["cls"], nt)
        return TH.check_coherence(t, rng, doc=getattr(t, "_vf_doc", None))

    return on_step


def run(ctx, res):
    for c in range(CASES[ctx.tier]):
        rng = ctx.rng(c)
        vals = TL.Vals()
        init = TH.gen_init(rng, vals)
        if init["kind"] == "recipe":
            init["via_document"] = rng.random() < 0.3
        case = {"init": init}
        steps = rng.randint(3, STEPS[ctx.tier])
        try:
            case, v = TH.run_case(case, _on_step(res, rng), gen=(rng, vals, steps, 0.6))
        except ValueError as e:
            if "too big" in str(e):
                res.count("skipped_big")
                continue
            raise
        if c < 2:
            res.sample({"init": case["init"], "steps": case["steps"][:5]})
        if v:
            m, d = v[0]
            # exceptions of the mutators themselves are C01's business unless a cache was warm
            op = (d.get("op") or {}).get("op", "init") if isinstance(d, dict) else "?"
            res.violation(f"{m}@{op}", d, {"case": case, "seedkey": [ctx.seed, ctx.shard, c]})
        res.count("histories")
        if getattr(case, "doc", None):
            res.count("in_document")


def replay(case):
    import random

    rng = random.Random(0)

    def on_step(i, t, g, op, info):
        return TH.check_coherence(t, rng, doc=getattr(t, "_vf_doc", None))

    _c, v = TH.run_case(case["case"], on_step, gen=None)
    return [{"mechanism": m, "detail": d} for m, d in (v or [])]


MANIFEST = {
    "text": "Exploration by runtime monitoring: after every public operation of generated histories (with cache-warming reads interleaved) an invariant monitor compares the live object's answers with a fresh parse of its own serialisation and with an independent lxml expansion, recomputes the position maps from the XML and walks the wrapper caches for orphans; tables inside a document are saved and reloaded after each step. Held = no disagreement on the steps observed.",
    "note": "Trusted: lxml, the independent expander (vf/oracles/tabxml.py) for the subset of ODF table structure odfdo documents; generator bounds as C01. The monitor reads the private maps (_tmap/_cmap/_rmap/_indexes) only to state the invariant the property names.",
    "technique": "runtime monitoring: state invariant at quiescent points + independent reader of the produced XML",
}
