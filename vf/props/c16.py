"""C16 - search and replace act on the text exactly as the regular expression says.

Monitor shape: executable model (O-RE: the same regular expression applied by Python's re to
each text node of an independent lxml copy of the tree) advanced next to the real call; then
the real tree is compared node by node, and, for formatted replacements, through the ODF
white-space interpreter."""

import copy
import re

from lxml import etree

from .. import known
from ..oracles import odftext
from . import c09

LEVEL = "exploration"
RULE = (
    "Element trees (text:p, text:h, text:span as root) assembled in white-space normal form from words of a "
    "small vocabulary with repeats, text:s/tab/line-break, spans (nested, empty), links, marks; patterns "
    "{literal, literal with a space, class, repetition, alternation, ^ anchored, $ anchored, word} (none can "
    "match the empty string); replacements {literal, empty, with inner space, leading space, trailing space, "
    "two spaces, TAB, LF, back-reference}; formatted in {False, True}. One evaluation = one call judged: "
    "replace(p) == sum of per-node match counts; replace(p, new) returns that count and leaves every text node "
    "equal to re.sub on the original node, element skeleton unchanged; with formatted=True the ODF reading of "
    "the tree equals the reading of the expected per-node result and no text node carries TAB/LF or an "
    "un-encoded space run; search/search_first/search_all/match/text_at agree with re on the ODF reading of "
    "the root. A third of the replace calls are made on a span or link that sits inside the tree (its tail "
    "may match too): only its own content may change or count, the whole tree is compared. In 30% of the cases "
    "the three calls follow one another on the same wrapper object (search, replace, search again). The library entry points of the odfdo-replace and odfdo-highlight scripts are run on whole "
    "generated documents and compared with the same model (text nodes / highlighted character ranges). "
    "Class = (call, pattern kind, where matches fall: text / tail / inside span / several nodes, "
    "formatted, replacement kind, root tag)."
)
SHARDS = {"quick": 16, "thorough": 16}
TIMEOUT = {"quick": 400, "thorough": 7200}
MIN_EVALS = {"quick": 100000, "thorough": 1500000}
CASES = {"quick": 3000, "thorough": 400000}
ASSUMPTIONS = [
    "matches do not span text nodes (documented); the element's own text for search positions is the ODF reading of the root element (no tail)",
    "input trees are in white-space normal form, as odfdo and office applications write them",
    "formatted replacement is judged on trees without links: re-encoding is documented for text owned by a paragraph, heading or span",
]
REACH = [
    ("odfdo.element", "Element.replace", True),
    ("odfdo.element", "Element.search", True),
    ("odfdo.element", "Element.search_first", True),
    ("odfdo.element", "Element.search_all", True),
    ("odfdo.element", "Element.match", True),
    ("odfdo.element", "Element.text_at", True),
    ("odfdo.paragraph", "Paragraph.append_plain_text", True),
    ("odfdo.scripts.replace", "search_replace", True),
    ("odfdo.scripts.highlight", "apply_style", True),
]

PATTERNS = [("literal", "beta"), ("space", "a b"), ("class", "[ab]"), ("repeat", "a+"), ("alt", "alpha|ab"), ("anchor^", "^a"), ("anchor$", "a$"), ("word", r"\w+"), ("nomatch", "zzz"), ("dot", "a.b")]
REPLS = [("literal", "X"), ("empty", ""), ("inner-space", "x y"), ("lead-space", " L"), ("trail-space", "T "), ("two-spaces", "p  q"), ("tab", "t\tu"), ("lf", "n\nm"), ("backref", r"\g<0>z"), ("only-space", " ")]
TX = odftext.TX


def logical(n):
    """Document-order logical string: raw text nodes + the characters the white-space elements
    stand for (nothing is collapsed)."""
    out = []

    def walk(e):
        if e.text:
            out.append(e.text)
        for ch in e:
            if isinstance(ch.tag, str):
                if ch.tag == TX + "s":
                    out.append(" " * int(ch.get(TX + "c") or 1))
                elif ch.tag == TX + "tab":
                    out.append("\t")
                elif ch.tag == TX + "line-break":
                    out.append("\n")
                else:
                    walk(ch)
            if ch.tail:
                out.append(ch.tail)

    walk(n)
    return "".join(out)


def inner_elements(n):
    return [e for e in n.iter(TX + "span", TX + "a") if e is not n]


def model_replace(n, rx, new, target=None):
    """Apply re.subn to every text node of a deep copy (of the target-th inner span/link only when a
    target is given: its own tail belongs to its parent). -> (copy, count, per-node situations)"""
    root = copy.deepcopy(n)
    m = root if target is None else inner_elements(root)[target]
    count = 0
    sits = set()
    for e in m.iter():
        if not isinstance(e.tag, str):
            continue
        if e.text:
            k = len(list(rx.finditer(e.text)))
            if k:
                sits.add("inside-span" if e.tag in (TX + "span", TX + "a") and e is not m else "text")
            count += k
            if new is not None:
                e.text = rx.sub(new, e.text)
        if e is not m and e.tail:
            k = len(list(rx.finditer(e.tail)))
            if k:
                sits.add("tail")
            count += k
            if new is not None:
                e.tail = rx.sub(new, e.tail)
    return root, count, sits


def text_node_list(n):
    return [s for s, _o, _t in c09.text_nodes(n)]


def skeleton(n):
    return [(e.tag, tuple(sorted(e.attrib.items()))) for e in n.iter() if isinstance(e.tag, str)]


def judge(root_xml, call, res=None, el=None):
    """call = {"fn": "replace"|"search"|..., "pattern":…, "pkind":…, "new":…, "rkind":…, "formatted": bool}
    -> (violations [(mechanism, detail, known)], class key)"""
    from odfdo import Element

    if el is None:
        el = Element.from_tag(root_xml)
    n = c09.node(el)  # (a chain of calls works on one and the same wrapper object: every call is judged on its current state)
    rx = re.compile(call["pattern"])
    out = []
    has_link = n.find(".//" + TX + "a") is not None or n.tag == TX + "a"
    fn = call["fn"]
    if fn == "replace":
        new = call.get("new")
        fmt = call.get("formatted", False)
        inner = inner_elements(n)
        target = call["target"] % len(inner) if call.get("target") is not None and inner else None
        model, exp_count, sits = model_replace(n, rx, new, target)
        before_xml = etree.tostring(n, encoding="unicode", with_tail=False)
        if target is not None:
            # the call is made on a span / link that sits inside the tree: only its own content is concerned
            el = Element.from_tag(inner[target])
            sits = {x + "@inner" for x in sits} | ({"tail-follows"} if inner[target].tail and rx.search(inner[target].tail) else set())
        try:
            got = el.replace(call["pattern"], new, formatted=fmt) if new is not None else el.replace(call["pattern"], formatted=fmt)
        except Exception as e:
            import traceback

            return [(f"replace-raised:{type(e).__name__}", {"exc": repr(e), "tb": traceback.format_exc()[-600:]}, None)], ("replace", call["pkind"], "raised")
        sit = "+".join(sorted(sits)) or "no-match"
        if len(sits) > 1 or exp_count > 1:
            sit += ":several"
        key = ("replace" + ("-count" if new is None else ""), call["pkind"], sit, "formatted" if fmt else "plain", call.get("rkind", "-"), n.tag.rpartition("}")[2])
        if got != exp_count:
            out.append(("replace:count-differs", {"returned": got, "expected": exp_count}, None))
        after_xml = etree.tostring(n, encoding="unicode", with_tail=False)
        if new is None:
            if after_xml != before_xml:
                out.append(("replace:counting-changed-the-tree", {}, None))
            return out, key
        if not fmt:
            if text_node_list(n) != text_node_list(model):
                out.append(("replace:text-nodes-differ", {"expected": text_node_list(model), "got": text_node_list(n)}, None))
            if skeleton(n) != skeleton(model):
                out.append(("replace:markup-changed", {}, None))
        else:
            exp_L = logical(model)
            got_L = logical(n)
            if got_L != exp_L:
                out.append(("replace(formatted):text-differs", {"expected": exp_L, "got": got_L, "xml_before": before_xml[-400:], "xml_after": after_xml[-400:]}, None))
            else:
                # encoded as in a freshly created paragraph: the consumer reads exactly that string
                proj = odftext.project(n)
                strict = any(ch in new for ch in " \t\n") and target is None
                # a replacement without white space may turn an existing, untouched space into the
                # first/last character of the paragraph: re-encoding neighbours is not demanded
                # (nor is re-encoding of two untouched spaces brought together by a deletion)
                if strict and proj != exp_L:
                    out.append(("replace(formatted):not-in-normal-form", {"consumer_reads": proj, "expected": exp_L, "xml_after": after_xml[-500:]}, None))
                issues = odftext.normal_form_issues(n)
                if issues:
                    out.append(("replace(formatted):raw-whitespace-left", {"issues": issues, "xml_after": after_xml[-400:]}, None))
            # markup: same non-white-space elements in the same order
            def marks(x):
                return [(e.tag, tuple(sorted(e.attrib.items()))) for e in x.iter() if isinstance(e.tag, str) and e.tag not in (TX + "s", TX + "tab", TX + "line-break")]

            if marks(n) != marks(model):
                out.append(("replace(formatted):markup-changed", {"expected": [t.rpartition("}")[2] for t, _a in marks(model)], "got": [t.rpartition("}")[2] for t, _a in marks(n)]}, None))
        return out, key
    # ---- search family called on a span that sits inside the tree: the text it works on is the span's own
    # content followed by what follows the span in its parent (its tail); positions and text_at index that string
    inner = inner_elements(n)
    if call.get("target") is not None and inner and not has_link:
        t = inner[call["target"] % len(inner)]
        el = Element.from_tag(t)
        s = logical(t) + (t.tail or "")
        key = (fn + "@inner", call["pkind"], "with-tail" if t.tail else "no-tail", n.tag.rpartition("}")[2])
        try:
            if fn == "text_at":
                a, b = call["span"]
                got, exp = el.text_at(a, b), (s[a:b] if b is not None else s[a:])
            elif fn == "search_first":
                got = el.search_first(call["pattern"])
                m = rx.search(s)
                exp = (m.start(), m.end()) if m else None
                if got is not None and got == exp and el.text_at(*got) != s[got[0] : got[1]]:
                    out.append(("text_at:does-not-return-what-search_first-found@inner", {"text": s, "span": got, "text_at": el.text_at(*got)}, None))
            elif fn == "search_all":
                got = el.search_all(call["pattern"])
                exp = [(m.start(), m.end()) for m in rx.finditer(s)]
                for a, b in got[:3]:
                    if el.text_at(a, b) != s[a:b]:
                        out.append(("text_at:does-not-return-what-search_all-found@inner", {"text": s, "span": [a, b], "text_at": el.text_at(a, b)}, None))
                        break
            elif fn == "search":
                got = el.search(call["pattern"])
                m = rx.search(s)
                exp = m.start() if m else None
            else:
                got, exp = el.match(call["pattern"]), rx.search(s) is not None
        except Exception as e:
            return [(f"{fn}-raised@inner:{type(e).__name__}", {"exc": repr(e)}, None)], key
        if got != exp:
            out.append((f"{fn}:differs-from-re-on-the-text@inner", {"text": s, "pattern": call["pattern"], "got": got, "expected": exp}, None))
        return out, key
    # ---- search family, judged on the ODF reading of the root
    s = odftext.project(n)
    fid = "F-P4" if has_link else None
    key = (fn, call["pkind"], "with-link" if has_link else "no-link", n.tag.rpartition("}")[2])
    try:
        if fn == "search":
            got = el.search(call["pattern"])
            m = rx.search(s)
            exp = m.start() if m else None
        elif fn == "search_first":
            got = el.search_first(call["pattern"])
            m = rx.search(s)
            exp = (m.start(), m.end()) if m else None
        elif fn == "search_all":
            got = el.search_all(call["pattern"])
            exp = [(m.start(), m.end()) for m in rx.finditer(s)]
        elif fn == "match":
            got = el.match(call["pattern"])
            exp = rx.search(s) is not None
        else:
            a, b = call["span"]
            got = el.text_at(a, b)
            exp = s[a:b] if b is not None else s[a:]
    except Exception as e:
        return [(f"{fn}-raised:{type(e).__name__}", {"exc": repr(e)}, None)], key
    if got != exp:
        out.append((f"{fn}:differs-from-re-on-the-text", {"text": s, "pattern": call["pattern"], "got": got, "expected": exp}, fid))
    return out, key


def gen_root(rng):
    pieces = [p for p in c09.gen_pieces(rng) if p[0] != "note"] or [("w", ["alpha"])]
    kind = rng.choice(["p", "p", "h", "span"])
    xml = c09.pieces_xml(pieces, heading=(kind == "h"))
    if kind == "span":
        xml = xml.replace("<text:p ", "<text:span ", 1)
        xml = xml[: xml.rindex("</text:p>")] + "</text:span>"
    return xml


def gen_call(rng):
    pk, pat = rng.choice(PATTERNS)
    r = rng.random()
    if r < 0.5:
        rk, new = rng.choice(REPLS)
        return {"fn": "replace", "pattern": pat, "pkind": pk, "new": new, "rkind": rk, "formatted": rng.random() < 0.6, "nolink": True, "target": rng.choice([None, None, rng.randrange(8)])}
    if r < 0.62:
        return {"fn": "replace", "pattern": pat, "pkind": pk, "new": None, "formatted": rng.random() < 0.4, "target": rng.choice([None, None, rng.randrange(8)])}
    fn = rng.choice(["search", "search_first", "search_all", "match", "text_at"])
    call = {"fn": fn, "pattern": pat, "pkind": pk, "target": rng.choice([None, None, rng.randrange(8)])}
    if fn == "text_at":
        a = rng.randint(0, 12)
        call["span"] = [a, rng.choice([None, a, a + rng.randint(0, 9)])]
    return call


def run(ctx, res):
    part_scripts(ctx, res)
    for c in range(CASES[ctx.tier]):
        rng = ctx.rng(c)
        xml = gen_root(rng)
        chain = rng.random() < 0.3  # the calls follow one another on the same object (search, replace, search again ...)
        live = None
        if chain:
            from odfdo import Element

            live = Element.from_tag(xml)
        calls_done = []
        for _ in range(3):
            call = gen_call(rng)
            if chain:
                call.pop("target", None)
                if call["fn"] == "replace" and call.get("new") is not None and call.get("rkind") not in ("literal", "backref"):
                    # the next call of the chain must start from a tree in white-space normal form
                    call["rkind"], call["new"] = rng.choice([("literal", "X"), ("backref", r"\g<0>z"), ("literal", "quux")])
            if call.get("formatted") and call.get("new") is not None and "<text:a " in xml:
                # formatting is documented for text owned by a paragraph, heading or span only
                call["formatted"] = False
            calls_done.append(call)
            try:
                v, key = judge(xml, call, el=live)
                if chain:
                    key = tuple(key) + ("chained",)
            except Exception as e:
                import traceback

                v, key = [(f"harness-raised:{type(e).__name__}", {"exc": repr(e), "tb": traceback.format_exc()[-800:]}, None)], ("harness",)
            res.judge()
            res.cls(key, True)
            for m, d, fid in v:
                res.violation(m + (":chained" if chain else ""), dict(d, call=call, xml=xml[xml.index(">") + 1 :][-500:]), {"xml": xml, "call": call, "chain": list(calls_done) if chain else None}, known=fid)
        if c < 2:
            res.sample({"xml": xml[xml.index(">") + 1 :][-300:], "call": call})


def replay(case):
    if case.get("chain"):
        from odfdo import Element

        live = Element.from_tag(case["xml"])
        v = []
        for call in case["chain"]:
            v, _k = judge(case["xml"], call, el=live)
        return [{"mechanism": m + ":chained", "detail": d, "known": fid} for m, d, fid in v]
    v, _k = judge(case["xml"], case["call"])
    return [{"mechanism": m, "detail": d, "known": fid} for m, d, fid in v]


MANIFEST = {
    "text": "Exploration by runtime monitoring: on generated element trees (paragraph, heading or span roots mixing text, spans, links, marks and white-space elements) every call of replace (counting, replacing, formatted or not) and of the search family is shadowed by a model that applies the same regular expression with Python's re to each text node of an independent lxml copy; the monitor compares the returned count, every text node, the markup skeleton and, for formatted replacements, the ODF reading of the result and its white-space normal form; search positions are compared with re on the ODF reading of the root. Held = model and implementation agreed on the calls observed, apart from listed known findings.",
    "note": "Trusted: Python's re per text node as the meaning of the property; vf/oracles/odftext.py. Known finding F-P4 (search family on elements containing links) is classified on the input tree (presence of text:a).",
    "technique": "runtime monitoring: executable reference model (re per text node on an lxml copy) compared with the real tree after each call + independent white-space interpreter",
}


# --------------------------------------------------------------------------- the scripts


def _body(data):
    root = etree.fromstring(data)
    return root.find("{urn:oasis:names:tc:opendocument:xmlns:office:1.0}body")


def _covered(n, style_attr, style):
    """Logical characters of each text node covered by a span of that style: list of
    (node string, covered?) in document order."""
    out = []
    for s, owner, is_text in c09.text_nodes(n):
        start = owner if is_text else owner.getparent()
        cov = False
        e = start
        while e is not None and e is not n.getparent():
            if e.tag == TX + "span" and e.get(style_attr) == style:
                cov = True
                break
            e = e.getparent()
        out.append((s, cov))
    return out


def part_scripts(ctx, res):
    """odfdo-replace and odfdo-highlight on whole documents (their library entry points)."""
    import argparse
    import os

    from odfdo.scripts import highlight as HL
    from odfdo.scripts import replace as RP

    from .. import doclab as DL

    rng = ctx.rng("scripts")
    n_docs = 6 if ctx.quick else 400
    for d in range(n_docs):
        spec = DL.gen_doc_spec(rng, kind="text")
        spec["table"] = rng.random() < 0.3
        # headings and paragraphs from the C09 vocabulary so that the patterns match
        with DL.TmpDir() as tmp:
            from odfdo import Document, Element

            doc = Document("text")
            doc.body.clear()
            for _ in range(rng.randint(2, 6)):
                pieces = [p for p in c09.gen_pieces(rng) if p[0] not in ("link", "emptylink")]
                doc.body.append(Element.from_tag(c09.pieces_xml(pieces or [("w", ["alpha"])], heading=rng.random() < 0.3)))
            src = os.path.join(tmp, "in.odt")
            doc.save(src)
            before = DL.Package(src).parts["content.xml"]
            nb = _body(before)
            for _ in range(3):
                pk, pat = rng.choice(PATTERNS)
                rk, new = rng.choice(REPLS)
                fmt = rng.random() < 0.4
                rx = re.compile(pat)
                dst = os.path.join(tmp, "out.odt")
                case = {"script": "replace", "pattern": pat, "new": new, "formatted": fmt}
                res.judge()
                try:
                    RP.search_replace(pat, new, src, dst, fmt)
                    after = DL.Package(dst).parts["content.xml"]
                    na = _body(after)
                    model, _cnt, _s = model_replace(nb, rx, new)
                    if fmt:
                        ok = logical(na) == logical(model)
                    else:
                        ok = text_node_list(na) == text_node_list(model) and skeleton(na) == skeleton(model)
                    if not ok:
                        res.violation("script-replace:result-differs-from-model", {"case": case, "expected": logical(model)[:300], "got": logical(na)[:300]}, {"xml": etree.tostring(nb, encoding="unicode"), "call": case})
                except Exception as e:
                    res.violation(f"script-replace:raised:{type(e).__name__}", {"case": case, "exc": repr(e)}, {"call": case})
                res.cls(("script-replace", pk, rk, "formatted" if fmt else "plain"), True)
            for _ in range(2):
                pk, pat = rng.choice([p for p in PATTERNS if p[0] not in ("anchor^", "anchor$", "nomatch")])
                rx = re.compile(pat)
                args = argparse.Namespace(pattern=pat, color=rng.choice(["", "red"]), background=rng.choice(["", "yellow"]), italic=rng.random() < 0.5, bold=True)
                res.judge()
                case = {"script": "highlight", "pattern": pat}
                try:
                    doc2 = Document(src)
                    HL.highlight_document(doc2, args)
                    out = os.path.join(tmp, "hl.odt")
                    doc2.save(out)
                    na = _body(DL.Package(out).parts["content.xml"])
                    if logical(na) != logical(nb):
                        res.violation("script-highlight:text-changed", {"case": case, "before": logical(nb)[:300], "after": logical(na)[:300]}, {"call": case})
                    style = [e.get(TX + "style-name") for e in na.iter(TX + "span") if (e.get(TX + "style-name") or "").startswith("odfdo_20_highlight")]
                    if style:
                        got = "".join(("#" * len(s)) if cov else s for s, cov in _covered(na, TX + "style-name", style[0]))
                    else:
                        got = logical(na)
                    exp = "".join(rx.sub(lambda m: "#" * len(m.group()), s) for s, _o, _t in c09.text_nodes(nb))
                    # compare on the text-node characters only (white-space elements carry no text)
                    got_nodes = "".join(("#" * len(s)) if cov else s for s, cov in _covered(na, TX + "style-name", style[0])) if style else "".join(s for s, _o, _t in c09.text_nodes(na))
                    if got_nodes != exp:
                        res.violation("script-highlight:highlighted-ranges-differ", {"case": case, "expected": exp[:300], "got": got_nodes[:300]}, {"call": case})
                except Exception as e:
                    res.violation(f"script-highlight:raised:{type(e).__name__}", {"case": case, "exc": repr(e)}, {"call": case})
                res.cls(("script-highlight", pk), True)
