"""C14 - anything is found again under the name it was given, whatever the name contains.

Monitor shape: acceptance + lookup oracle.  For each identifier two objects are stored: one
under the identifier, a decoy under a near-miss.  The lookup must return the very node that
was stored (recognised by a planted marker attribute, read with lxml directly), a lookup of an
absent near-miss must return nothing, and no lookup may fail with an internal query error."""

import itertools

LEVEL = "exploration"
RULE = (
    "Identifiers: ALL strings up to length 3 over {a, SPACE, \", ', &, <, [, ], e-acute, .} (flag "
    "identifiers_exhaustive) plus random ones to length 12 and XPath/XML-injection shapes, filtered by what "
    "each setter accepts (a refusing ValueError/TypeError = 'not accepted', counted). Carriers x lookups: table "
    "name (body.get_table(name=)), paragraph style (insert_style / get_style, automatic and common), bookmark, "
    "bookmark start/end, reference mark (point and range), frame name (get_frame), image name, draw page name "
    "(get_draw_page), variable declaration, variable set, user field declaration, user defined field, note id "
    "(get_note), annotation name, link name, draw group name, text change id, manifest path (add_full_path / "
    "get_media_type / get_path_medias), get_between/get_references by name, named ranges by name and by the "
    "name of their table (tables whose names contain one another; str and list filter; rename of the longest); "
    "the Document helpers taking 'name or index of the table' (get_table_style, set/get_table_displayed) with the "
    "target as last table, also for names that look like numbers. "
    "Each found object is then given another identifier through its public setter (the former identifier must "
    "no longer match it, the new one must) and deleted (no longer found). One evaluation = one (carrier, "
    "identifier) case judged: lookup(id) returns the marked node whose identifier attribute equals id exactly; "
    "lookup(near-miss absent) returns None; no XPathSyntaxError/XPathEvalError/XMLSyntaxError. Class = "
    "(carrier, character classes present in the identifier, outcome)."
)
SHARDS = {"quick": 16, "thorough": 16}
TIMEOUT = {"quick": 400, "thorough": 7200}
MIN_EVALS = {"quick": 20000, "thorough": 150000}
EXHAUSTIVE = {"quick": True, "thorough": True}
ASSUMPTIONS = [
    "an identifier is 'accepted' when the setter/constructor does not raise ValueError/TypeError; C0 control characters (not representable in XML) are not generated",
    "leading/trailing white space of a table name is stripped by the API (documented); such candidates are looked up under the stripped name",
]
REACH = [
    ("odfdo.utils.xpath_query", "make_xpath_query", True),
    ("odfdo.element", "Element._filtered_elements", True),
    ("odfdo.manifest", "Manifest.get_media_type", True),
    ("odfdo.manifest", "Manifest.add_full_path", True),
    ("odfdo.manifest", "Manifest.make_file_entry", True),
    ("odfdo.element", "Element.get_reference_mark", True),
    ("odfdo.body", "Body.get_table", False),
]

ALPHA = ["a", " ", '"', "'", "&", "<", "[", "]", "é", "."]
EXTRA = ["b", "1", ">", "/", ".", "=", "(", ")", "|", "*", "@", ":", "-", "_", "日", "\t"]
NUMERIC_LOOKING = ["0", "1", "2", "3", "007", "2024", "1_0", "-1", "+1", "1e3", "\uff11\uff12", "\u0663", "0x1", "1.0", "True", "None", "true", "false"]
QUOTE_DOT = ["rev'.bak", "a'.b'.c", "x'.y", "Smiths'. Co", "Q3 'est'. figures", "it's.", "a''.b", "a.'b", "l'a.b'.c.d", "'.", "a'.'b"]
INJECTIONS = NUMERIC_LOOKING + QUOTE_DOT + ['a"]|//*[@x="', "a' or '1'='1", 'x" or "1"="1', "]]>", "&amp;", "&lt;b&gt;", "a\"'b", "'\"", "\"'\"", "a]", "[a", "a&b<c>d", "concat('a')", "a\nb"]
MARK = "{urn:vf}mark"


def charclasses(s):
    k = set()
    for ch in s:
        if ch == '"':
            k.add("dquote")
        elif ch == "'":
            k.add("apos")
        elif ch in "&<>":
            k.add("xmlspecial")
        elif ch in "[]()|*@=/":
            k.add("xpathish")
        elif ch.isspace():
            k.add("space")
        elif ord(ch) > 127:
            k.add("nonascii")
        else:
            k.add("plain")
    if '"' in s and "'" in s:
        k.add("both-quotes")
    return "+".join(sorted(k))


def near_misses(s):
    out = [s + "x", "x" + s, s[:-1] if len(s) > 1 else s + s, s.upper() if s.upper() != s else s + "_"]
    uniq = []
    for n in out:
        if n != s and n.strip() and n not in uniq and n.strip() != s.strip():
            uniq.append(n)
    if len(uniq) < 2 or uniq[-1].strip() in [u.strip() for u in uniq[:-1]]:
        uniq.append(s + "\u00e9z")  # the last one is the name that is looked up but never stored
    return uniq


def node(el):
    return el._Element__element


class Ctxt:
    """A fresh text document with a paragraph to hang things on."""

    def __init__(self, kind="text"):
        from odfdo import Document, Paragraph

        self.doc = Document(kind)
        self.body = self.doc.body
        if kind == "text":
            self.body.clear()
            self.p = Paragraph("alpha beta gamma delta")
            self.body.append(self.p)


def mark(el, which):
    node(el).set(MARK, which)


def verdict(found, ident, attr, expect_mark="target"):
    """found: Element | None -> (ok, why)"""
    if found is None:
        return False, "not-found"
    n = node(found)
    if n.get(MARK) != expect_mark:
        return False, f"wrong-object(mark={n.get(MARK)!r}, {attr}={n.get(attr)!r})"
    if attr and n.get(attr) != ident:
        return False, f"identifier-differs({n.get(attr)!r})"
    return True, ""


TEXT = "{urn:oasis:names:tc:opendocument:xmlns:text:1.0}"
DRAW = "{urn:oasis:names:tc:opendocument:xmlns:drawing:1.0}"
TABLE = "{urn:oasis:names:tc:opendocument:xmlns:table:1.0}"
STYLE = "{urn:oasis:names:tc:opendocument:xmlns:style:1.0}"
OFFICE = "{urn:oasis:names:tc:opendocument:xmlns:office:1.0}"


def carriers():
    """name -> (store(ctxt, ident, which) -> stored ident or raises, lookup(ctxt, ident) -> Element|None, attr)"""
    from odfdo import Element, Frame, Paragraph, Style, Table

    C = {}

    def simple(tag, attr_q, lxml_attr, getter, **fixed):
        def store(c, ident, which):
            el = Element.from_tag(tag)
            el.set_attribute(attr_q, ident)
            for k, v in fixed.items():
                el.set_attribute(k, v)
            mark(el, which)
            c.p.append(el)
            return ident

        return store, getter, lxml_attr

    def t_store(c, ident, which):
        t = Table(ident)
        mark(t, which)
        c.body.append(t)
        return t.name

    C["table"] = (t_store, lambda c, i: c.body.get_table(name=i), TABLE + "name")

    def s_store(auto):
        def store(c, ident, which):
            if which == "target":
                # a style of another family under the very same name, stored first (ODF names styles per family)
                twin = Style("text", name=ident)
                mark(twin, "same-name-other-family")
                c.doc.insert_style(twin, automatic=auto)
            st = Style("paragraph", name=ident)
            mark(st, which)
            c.doc.insert_style(st, automatic=auto)
            return ident

        return store

    C["style-auto"] = (s_store(True), lambda c, i: c.doc.get_style("paragraph", i), STYLE + "name")
    C["style-common"] = (s_store(False), lambda c, i: c.doc.get_style("paragraph", i), STYLE + "name")

    def bm_store(c, ident, which):
        b = c.p.set_bookmark(ident, position=1 if which == "target" else 3)
        mark(b, which)
        return ident

    C["bookmark"] = (bm_store, lambda c, i: c.body.get_bookmark(name=i), TEXT + "name")
    C["bookmark-start"] = simple("text:bookmark-start", "text:name", TEXT + "name", lambda c, i: c.body.get_bookmark_start(name=i))
    C["bookmark-end"] = simple("text:bookmark-end", "text:name", TEXT + "name", lambda c, i: c.body.get_bookmark_end(name=i))

    def rm_store(c, ident, which):
        r = c.p.set_reference_mark(ident, position=2 if which == "target" else 4)
        mark(r, which)
        return ident

    C["reference-mark"] = (rm_store, lambda c, i: c.body.get_reference_mark(name=i), TEXT + "name")
    C["reference-mark-single"] = (rm_store, lambda c, i: c.body.get_reference_mark_single(name=i), TEXT + "name")
    C["reference-mark-start"] = simple("text:reference-mark-start", "text:name", TEXT + "name", lambda c, i: c.body.get_reference_mark(name=i))
    C["reference-mark-end"] = simple("text:reference-mark-end", "text:name", TEXT + "name", lambda c, i: c.body.get_reference_mark_end(name=i))

    def fr_store(c, ident, which):
        f = Frame.text_frame("x", size=("1cm", "1cm"), name=ident, anchor_type="as-char")
        mark(f, which)
        c.p.append(f)
        return ident

    C["frame"] = (fr_store, lambda c, i: c.body.get_frame(name=i), DRAW + "name")
    C["variable-decl"] = simple("text:variable-decl", "text:name", TEXT + "name", lambda c, i: c.body.get_variable_decl(i), **{"office:value-type": "string"})
    C["variable-set"] = simple("text:variable-set", "text:name", TEXT + "name", lambda c, i: c.body.get_variable_set(i))
    C["user-field-decl"] = simple("text:user-field-decl", "text:name", TEXT + "name", lambda c, i: c.body.get_user_field_decl(i), **{"office:value-type": "string"})
    C["user-defined"] = simple("text:user-defined", "text:name", TEXT + "name", lambda c, i: c.body.get_user_defined(i))
    C["link-name"] = simple("text:a", "office:name", OFFICE + "name", lambda c, i: c.body.get_link(name=i), **{"xlink:href": "http://x"})
    C["annotation-name"] = simple("office:annotation", "office:name", OFFICE + "name", lambda c, i: c.body.get_annotation(name=i))
    C["draw-group"] = simple("draw:g", "draw:name", DRAW + "name", lambda c, i: c.body.get_draw_group(name=i))
    C["text-change"] = simple("text:change", "text:change-id", TEXT + "change-id", lambda c, i: c.body.get_text_change(idx=i))

    def note_store(c, ident, which):
        from odfdo import Note

        n = Note("footnote", note_id=ident, citation="1", body="b")
        mark(n, which)
        c.p.append(n)
        return ident

    C["note-id"] = (note_store, lambda c, i: c.body.get_note(note_id=i), TEXT + "id")
    return C


def run_carrier(res, cname, spec, ident):
    store, lookup, attr = spec
    from lxml.etree import XMLSyntaxError, XPathError

    c = Ctxt()
    case = {"carrier": cname, "ident": ident}
    try:
        stored = store(c, ident, "target")
    except (ValueError, TypeError) as e:
        if isinstance(e, (XMLSyntaxError,)) or "XPath" in type(e).__name__:
            res.violation(f"store-failed-with-internal-error:{cname}:{type(e).__name__}", {"ident": ident, "exc": repr(e)}, case)
            res.judge()
            res.cls((cname, charclasses(ident), "internal-error"), True)
            return
        res.count("not_accepted")
        res.cls((cname, charclasses(ident), "refused"), True)
        return
    except (XMLSyntaxError, XPathError) as e:
        res.judge()
        res.cls((cname, charclasses(ident), "internal-error"), True)
        res.violation(f"store-failed-with-internal-error:{cname}:{type(e).__name__}", {"ident": ident, "exc": repr(e)}, case)
        return
    ident_l = stored if stored is not None else ident
    decoys = near_misses(ident_l)
    absent = decoys[-1]
    for d in decoys[:-1]:
        try:
            store(c, d, "decoy")
        except Exception:
            pass
    res.judge()
    outcome = "found"
    try:
        found = lookup(c, ident_l)
        ok, why = verdict(found, ident_l, attr)
        if not ok:
            outcome = why.split("(")[0]
            res.violation(f"lookup:{cname}:{outcome}", {"ident": ident_l, "why": why}, case)
        if cname in ("style-auto", "style-common"):
            ok2, why2 = verdict(c.doc.get_style("text", ident_l), ident_l, attr, expect_mark="same-name-other-family")
            if not ok2:
                outcome = "other-family-" + why2.split("(")[0]
                res.violation(f"lookup:{cname}:same-name-in-another-family:{why2.split('(')[0]}", {"ident": ident_l, "why": why2}, case)
        miss = lookup(c, absent)
        if miss is not None:
            outcome = "near-miss-matched"
            res.violation(f"lookup:{cname}:absent-near-miss-matched", {"ident": ident_l, "looked_up": absent, "got": node(miss).get(attr)}, case)
        # after a save -> reload the same lookup must still succeed
    except (XMLSyntaxError, XPathError) as e:
        outcome = "query-error"
        res.violation(f"lookup:{cname}:internal-query-error:{type(e).__name__}", {"ident": ident_l, "exc": repr(e)[:200]}, case)
    except Exception as e:
        outcome = "raised"
        res.violation(f"lookup:{cname}:raised:{type(e).__name__}", {"ident": ident_l, "exc": repr(e)[:200]}, case)
    res.cls((cname, charclasses(ident), outcome), True)
    if outcome != "found":
        return
    # second phase: the object found is given another identifier, then removed; a lookup under the
    # former identifier must no longer match it (an object with a different identifier), the new one must
    res.judge()
    outcome2 = "renamed-and-deleted"
    try:
        target = found
        if hasattr(target, "set_value") and cname in ("variable-set", "user-field-decl", "user-defined"):
            # changing what the object holds does not change what it is called
            try:
                target.set_value("another value")
            except (ValueError, TypeError):
                pass
            else:
                same = lookup(c, ident_l)
                # (set_value rebuilds the element's attributes: the planted marker goes with them, the node stays)
                ok = same is not None and node(same) is node(target) and node(same).get(attr) == ident_l
                why = "not-found" if same is None else ("wrong-object" if node(same) is not node(target) else f"identifier-differs({node(same).get(attr)!r})")
                if ok:
                    mark(target, "target")
                if not ok:
                    outcome2 = "lost-after-set_value"
                    res.violation(f"lookup:{cname}:not-found-after-set_value:{why.split('(')[0]}", {"ident": ident_l, "why": why, "names_now": [node(e).get(attr) for e in node(c.body).iter() if False] or None}, case)
                    res.cls((cname, charclasses(ident), outcome2), True)
                    return
        try:
            target.name = absent  # public setter where the class has one (styles, tables, marks, frames ...)
            if node(target).get(attr) != absent:
                raise AttributeError
        except (AttributeError, TypeError, ValueError):
            node(target).set(attr, absent)
        new_ident = node(target).get(attr)
        stale = lookup(c, ident_l)
        if stale is not None:
            outcome2 = "old-name-still-matches"
            res.violation(f"lookup:{cname}:old-identifier-still-matches-after-rename", {"ident": ident_l, "renamed_to": new_ident, "got": node(stale).get(attr), "mark": node(stale).get(MARK)}, case)
        again = lookup(c, new_ident)
        ok, why = verdict(again, new_ident, attr)
        if not ok:
            outcome2 = "not-found-after-rename"
            res.violation(f"lookup:{cname}:not-found-under-the-new-identifier:{why.split('(')[0]}", {"ident": ident_l, "renamed_to": new_ident, "why": why}, case)
        if again is not None and node(again).getparent() is not None:
            again.delete()
            gone = lookup(c, new_ident)
            if gone is not None and node(gone).get(MARK) == "target":
                outcome2 = "found-after-delete"
                res.violation(f"lookup:{cname}:deleted-object-still-found", {"ident": new_ident}, case)
    except (XMLSyntaxError, XPathError) as e:
        outcome2 = "query-error"
        res.violation(f"lookup:{cname}:internal-query-error-after-rename:{type(e).__name__}", {"ident": ident_l, "exc": repr(e)[:200]}, case)
    except Exception as e:
        outcome2 = "raised"
        res.violation(f"lookup:{cname}:raised-after-rename:{type(e).__name__}", {"ident": ident_l, "exc": repr(e)[:300]}, case)
    res.cls((cname, charclasses(ident), outcome2), True)


def run_named_ranges(res, ident):
    """Named ranges looked up by name and by the name of their table: tables whose names contain one another."""
    from lxml.etree import XMLSyntaxError, XPathError

    from odfdo import Document, Table

    case = {"carrier": "named-range", "ident": ident}
    res.judge()
    outcome = "ok"
    try:
        doc = Document("spreadsheet")
        body = doc.body
        body.clear()
        try:
            names = [ident] + [d for d in near_misses(ident)[:3]]
            tables = []
            for i, nm in enumerate(names):
                t = Table(nm, 3, 3)
                t.set_value((0, 0), f"v{i}")
                body.append(t)
                tables.append(t)
        except (ValueError, TypeError):
            res.count("not_accepted")
            res.cls(("named-range", charclasses(ident), "refused"), True)
            return
        stored = [t.name for t in tables]
        if len(set(stored)) != len(stored):
            res.cls(("named-range", charclasses(ident), "names-collide"), True)
            return
        for i, t in enumerate(tables):
            t.set_named_range(f"vf_nr_{i}", "A1", table_name=t.name)
        for i, t in enumerate(tables):
            # by table name, given as a string and as a list
            for form, arg in (("str", stored[i]), ("list", [stored[i]])):
                got = sorted(nr.name for nr in tables[0].get_named_ranges(table_name=arg))
                if got != [f"vf_nr_{i}"]:
                    outcome = "wrong-ranges"
                    res.violation(f"lookup:named-ranges-by-table-name({form}):wrong-set", {"table": stored[i], "tables": stored, "got": got, "expected": [f"vf_nr_{i}"]}, case)
            nr = body.get_named_range(f"vf_nr_{i}")
            if nr is None or nr.table_name != stored[i]:
                outcome = "wrong-table-name"
                res.violation("lookup:named-range:table-name-read-back-differs", {"table": stored[i], "got": None if nr is None else nr.table_name}, case)
            elif nr.get_value() != f"v{i}":
                outcome = "wrong-table"
                res.violation("lookup:named-range:reads-another-table", {"table": stored[i], "got": nr.get_value(), "expected": f"v{i}"}, case)
        # renaming the table with the longest name must re-target its own range only
        k = max(range(len(stored)), key=lambda j: len(stored[j]))
        tables[k].name = "Renamed"
        for i in range(len(tables)):
            exp = "Renamed" if i == k else stored[i]
            nr = body.get_named_range(f"vf_nr_{i}")
            if nr is None or nr.table_name != exp:
                outcome = "retarget"
                res.violation("lookup:named-range:wrong-range-retargeted-by-a-table-rename", {"renamed": stored[k], "range_of": stored[i], "now_points_to": None if nr is None else nr.table_name}, case)
    except (XMLSyntaxError, XPathError) as e:
        outcome = "query-error"
        res.violation(f"lookup:named-range:internal-error:{type(e).__name__}", {"ident": ident, "exc": repr(e)[:200]}, case)
    except Exception as e:
        outcome = "raised"
        res.violation(f"lookup:named-range:raised:{type(e).__name__}", {"ident": ident, "exc": repr(e)[:300]}, case)
    res.cls(("named-range", charclasses(ident), outcome), True)


def run_table_helpers(res, ident):
    """The Document helpers that take 'name or index of the table': a str is a name, whatever it looks like."""
    from lxml.etree import XMLSyntaxError, XPathError

    from odfdo import Document, Style, Table

    case = {"carrier": "table-helpers", "ident": ident}
    res.judge()
    outcome = "ok"
    try:
        doc = Document("spreadsheet")
        body = doc.body
        body.clear()
        try:
            names = [d for d in near_misses(ident)[:3]] + [ident]  # the target is the LAST table: an index never reaches it by luck
            tables = [Table(nm, 2, 2) for nm in names]
        except (ValueError, TypeError):
            res.count("not_accepted")
            res.cls(("table-helpers", charclasses(ident), "refused"), True)
            return
        stored = [t.name for t in tables]
        if len(set(stored)) != len(stored):
            res.cls(("table-helpers", charclasses(ident), "names-collide"), True)
            return
        for i, t in enumerate(tables):
            sname = f"vf_ta_{i}"
            doc.insert_style(Style("table", name=sname, display=True), automatic=True)
            t.style = sname
            body.append(t)
        want = f"vf_ta_{len(tables) - 1}"
        target_name = stored[-1]
        st = doc.get_table_style(target_name)
        if st is None or st.name != want:
            outcome = "wrong-table"
            res.violation("lookup:table-helpers:get_table_style-reads-another-table", {"table": target_name, "tables": stored, "got": None if st is None else st.name, "expected": want}, case)
        doc.set_table_displayed(target_name, False)
        shown = {t.name: doc.get_table_displayed(t.name) for t in body.get_tables()}
        exp = {nm: (nm != target_name) for nm in stored}
        if shown != exp:
            outcome = "wrong-table"
            res.violation("lookup:table-helpers:set_table_displayed-changed-another-table", {"table": target_name, "tables": stored, "displayed": shown, "expected": exp}, case)
    except (XMLSyntaxError, XPathError) as e:
        outcome = "query-error"
        res.violation(f"lookup:table-helpers:internal-error:{type(e).__name__}", {"ident": ident, "exc": repr(e)[:200]}, case)
    except Exception as e:
        outcome = "raised"
        res.violation(f"lookup:table-helpers:raised:{type(e).__name__}", {"ident": ident, "exc": repr(e)[:300]}, case)
    res.cls(("table-helpers", charclasses(ident), "numeric-looking" if ident.strip().lstrip("+-").replace("_", "").isdigit() else "", outcome), True)


def run_manifest(res, ident):
    from lxml.etree import XMLSyntaxError, XPathError

    from odfdo import Document

    case = {"carrier": "manifest-path", "ident": ident}
    doc = Document("text")
    m = doc.manifest
    path = "Pictures/" + ident
    media = "image/x-" + (ident if ident.isalnum() else "test")
    res.judge()
    outcome = "found"
    try:
        m.add_full_path(path, media)
        for d in near_misses(path)[:-1]:
            m.add_full_path(d, "application/decoy")
        got = m.get_media_type(path)
        if got != media:
            outcome = "wrong-media-type"
            res.violation("lookup:manifest-path:wrong-media-type", {"path": path, "got": got, "expected": media}, case)
        if m.get_media_type(near_misses(path)[-1]) is not None:
            outcome = "near-miss-matched"
            res.violation("lookup:manifest-path:absent-near-miss-matched", {"path": path}, case)
        listed = [p for p, _m in m.get_path_medias()]
        if listed.count(path) != 1:
            outcome = "not-listed-once"
            res.violation("lookup:manifest-path:not-listed-exactly-once", {"path": path, "count": listed.count(path)}, case)
        import io

        buf = io.BytesIO()
        doc.save(buf)
        buf.seek(0)
        if Document(buf).manifest.get_media_type(path) != media:
            outcome = "lost-after-reload"
            res.violation("lookup:manifest-path:lost-after-reload", {"path": path}, case)
    except (XMLSyntaxError, XPathError) as e:
        outcome = "query-error"
        res.violation(f"lookup:manifest-path:internal-error:{type(e).__name__}", {"path": path, "exc": repr(e)[:200]}, case)
    except (ValueError, TypeError) as e:
        if "XPath" in type(e).__name__ or "XML" in type(e).__name__:
            outcome = "query-error"
            res.violation(f"lookup:manifest-path:internal-error:{type(e).__name__}", {"path": path, "exc": repr(e)[:200]}, case)
        else:
            outcome = "refused"
    res.cls(("manifest-path", charclasses(ident), outcome), True)


def run_between(res, ident):
    """get_between by bookmark names, get_references by name."""
    from lxml.etree import XMLSyntaxError, XPathError

    from odfdo import Element

    c = Ctxt()
    case = {"carrier": "get_between", "ident": ident}
    res.judge()
    outcome = "ok"
    try:
        b1 = Element.from_tag("text:bookmark")
        b1.set_attribute("text:name", ident)
        b2 = Element.from_tag("text:bookmark")
        b2.set_attribute("text:name", ident + "2")
        c.p.clear()
        c.p.append("aaa")
        c.p.append(b1)
        c.p.append("between")
        c.p.append(b2)
        c.p.append("zzz")
        got = c.body.get_between(b1, b2, as_text=True)
        if got.strip() != "between":
            outcome = "wrong"
            res.violation("lookup:get_between:wrong-text", {"ident": ident, "got": got}, case)
        ref = Element.from_tag("text:reference-ref")
        ref.set_attribute("text:ref-name", ident)
        c.p.append(ref)
        refs = c.body.get_references(name=ident)
        if len(refs) != 1:
            outcome = "refs"
            res.violation("lookup:get_references:count", {"ident": ident, "n": len(refs)}, case)
        if c.body.get_references(name=ident + "x"):
            res.violation("lookup:get_references:absent-near-miss-matched", {"ident": ident}, case)
    except (XMLSyntaxError, XPathError) as e:
        outcome = "query-error"
        res.violation(f"lookup:get_between:internal-query-error:{type(e).__name__}", {"ident": ident, "exc": repr(e)[:200]}, case)
    except Exception as e:
        outcome = "raised"
        res.violation(f"lookup:get_between:raised:{type(e).__name__}", {"ident": ident, "exc": repr(e)[:200]}, case)
    res.cls(("get_between", charclasses(ident), outcome), True)


def identifiers(ctx):
    ids = []
    for L in (1, 2, 3):
        for tup in itertools.product(ALPHA, repeat=L):
            s = "".join(tup)
            if s.strip():
                ids.append(s)
    rng = ctx.rng("ids")
    for _ in range(300 if ctx.quick else 50000):
        ids.append("".join(rng.choice(ALPHA + EXTRA) for _ in range(rng.randint(4, 12))))
    ids += INJECTIONS
    return [i for i in ids if i.strip()]


def run(ctx, res):
    C = carriers()
    ids = identifiers(ctx)
    names = sorted(C)
    k = 0
    for i, ident in enumerate(ids):
        for ci, cname in enumerate(names):
            k += 1
            if not ctx.mine(k):
                continue
            try:
                run_carrier(res, cname, C[cname], ident)
            except Exception as e:
                import traceback

                res.violation(f"harness-raised:{cname}:{type(e).__name__}", {"ident": ident, "tb": traceback.format_exc()[-700:]}, {"carrier": cname, "ident": ident})
        if ctx.mine(i):
            run_manifest(res, ident)
            run_between(res, ident)
            run_named_ranges(res, ident)
            run_table_helpers(res, ident)
    res.info["identifiers_exhaustive"] = "all strings up to length 3 over the 10-letter alphabet on every carrier"
    res.sample({"carrier": "bookmark", "ident": 'a"]|//*[@x="', "decoys": near_misses('a"]|//*[@x="')})
    res.sample({"carrier": "table", "ident": "é '"})


def replay(case):
    from ..core import Res

    res = Res()
    if case["carrier"] == "manifest-path":
        run_manifest(res, case["ident"])
    elif case["carrier"] == "get_between":
        run_between(res, case["ident"])
    elif case["carrier"] == "named-range":
        run_named_ranges(res, case["ident"])
    elif case["carrier"] == "table-helpers":
        run_table_helpers(res, case["ident"])
    else:
        run_carrier(res, case["carrier"], carriers()[case["carrier"]], case["ident"])
    return res.violations


MANIFEST = {
    "text": "Exploration by runtime monitoring with enumeration of the identifier space: every string up to length 3 over an alphabet of XPath- and XML-significant characters (double quote, apostrophe, ampersand, less-than, brackets, space, non-ASCII), random longer strings and injection shapes are used as identifier on ~25 carriers; each case stores a marked target and near-miss decoys, then the lookup must return the marked node with exactly that identifier (read with lxml), the absent near-miss must return nothing, and no lookup may raise an internal XPath/XML error. Held = every accepted identifier was found again, and only it, on the cases observed.",
    "note": "Trusted: the planted marker attribute as node identity; 'accepted' = the setter did not raise ValueError/TypeError. Control characters are not generated.",
    "technique": "runtime monitoring: store/lookup oracle with planted markers and near-miss decoys over an enumerated identifier space",
}
