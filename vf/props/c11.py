"""C11 - saving is neutral: pretty/packaging change layout only; save never edits memory.

Monitor shape: (a) independent reader of the artefact compared layout-insensitively with the
pre-save in-memory state (element skeleton, attribute values, O-TEXT projection of every
paragraph and heading); (b) purity monitor: in-memory digest before vs after every save;
(c) successive saves write the same content."""

from lxml import etree

from .. import doclab as DL
from .. import known
from ..oracles import odftext

LEVEL = "exploration"
RULE = (
    "Documents: templates, samples, decorated packages, generated text documents whose paragraphs put every "
    "ordered pair of {text, spaces, text:s, text:tab, text:line-break, span, link, note, annotation, frame, "
    "bookmark, reference mark, a lone NBSP, a lone U+202F} adjacent (196 pairs, each also between words and "
    "between two inline elements), optionally after 0-3 edits. Save "
    "sequences of length 1-3 over configurations pretty in {False, True} x packaging in {zip, folder, xml}; in a "
    "third of the random sequences every zip save goes to one and the same BytesIO object or path (pretty first, "
    "plain last: the second archive is the smaller one). "
    "One evaluation = one save judged: every XML part of the artefact has the same element skeleton and "
    "attribute values as the in-memory part before the first save, the same readable text (O-TEXT) for every "
    "paragraph/heading in order, the same non-paragraph character data; binary parts byte-identical; the "
    "in-memory state after the save is C14N-equal to the state before (modulo meta:generator); a repeated "
    "configuration writes C14N-equal parts. Class = (source kind, pretty, packaging, position in the save "
    "sequence, previous configuration, adjacent inline pair for generated paragraphs)."
)
SHARDS = {"quick": 16, "thorough": 16}
TIMEOUT = {"quick": 400, "thorough": 5400}
MIN_EVALS = {"quick": 1200, "thorough": 30000}
CASES = {"quick": 30, "thorough": 2500}
ASSUMPTIONS = [
    "white space ODF consumers ignore = what vf/oracles/odftext.py collapses inside paragraphs, and any white space in element-only content; base64 payloads are compared without white space",
    "flat XML is compared with the concatenation meta, settings, styles, content (the order odfdo documents)",
]
REACH = [
    ("odfdo.container", "pretty_indent", True),
    ("odfdo.xmlpart", "XmlPart.custom_pretty_tree", True),
    ("odfdo.xmlpart", "XmlPart.pretty_serialize", True),
    ("odfdo.document", "Document.save", True),
    ("odfdo.container", "Container._xml_content", True),
    ("odfdo.container", "Container._save_folder", True),
]

CONFIGS = [(p, k) for p in (False, True) for k in ("zip", "folder", "xml")]


def para_elements(data):
    root = etree.fromstring(data)
    return root, odftext.paragraphs(root)


def layout_compare(name, E, A, res=None):
    """E in-memory bytes, A saved bytes of one XML part.  -> [(mechanism, detail, known)]"""
    out = []
    drop = name.endswith("meta.xml")
    if not E.strip() or not A.strip():  # empty members (Configurations2/accelerator/current.xml)
        return [] if E == A else [("layout:empty-part-differs", {"part": name}, None)]
    try:
        ske, ska = DL.skeleton(E, drop), DL.skeleton(A, drop)
    except etree.XMLSyntaxError as e:
        return [("layout:part-not-well-formed", {"part": name, "exc": repr(e)}, None)]
    if ske != ska:
        i = next((k for k in range(min(len(ske), len(ska))) if ske[k] != ska[k]), min(len(ske), len(ska)))
        out.append(("layout:structure-or-attribute-differs", {"part": name, "at": i, "expected": str(ske[i : i + 1])[:300], "got": str(ska[i : i + 1])[:300]}, None))
        return out
    rootE, pe = para_elements(E)
    _rootA, pa = para_elements(A)
    # prefixes used inside attribute values (of:=SUM(...), ooow:...) keep their binding: a prefix bound at the root of the
    # part in memory and used that way is bound to the same URI in the artefact
    import re as _re

    used = set()
    for el in rootE.iter():
        if isinstance(el.tag, str):
            for v in el.attrib.values():
                m = _re.match(r"([A-Za-z_][\w.-]*):[^/\s]", v)
                if m:
                    used.add(m.group(1))
    lost = sorted(pfx for pfx in used if pfx in (rootE.nsmap or {}) and (_rootA.nsmap or {}).get(pfx) != rootE.nsmap[pfx])
    if lost:
        out.append(("layout:prefix-used-in-attribute-values-no-longer-bound", {"part": name, "prefixes": lost}, None))
    for k, (p1, p2) in enumerate(zip(pe, pa)):
        t1, t2 = odftext.project(p1), odftext.project(p2)
        if t1 != t2:
            fid = "F-D6" if known.f_d6_pretty_leak(p1, t1, t2) else None
            out.append(("layout:paragraph-text-differs", {"part": name, "paragraph": k, "expected": t1[:200], "got": t2[:200], "xml": etree.tostring(p1, encoding="unicode")[:400]}, fid))
            break
    n1, n2 = DL.non_paragraph_text(E), DL.non_paragraph_text(A)
    if drop:
        n1 = [x for x in n1 if not x[0].endswith("}generator")]
        n2 = [x for x in n2 if not x[0].endswith("}generator")]
    if n1 != n2:
        d = next((k for k in range(min(len(n1), len(n2))) if n1[k] != n2[k]), min(len(n1), len(n2)))
        out.append(("layout:character-data-differs", {"part": name, "expected": str(n1[d : d + 1])[:200], "got": str(n2[d : d + 1])[:200]}, None))
    return out


def judge_artefact(E0, how, pretty, artefact, pkg, plain_flat=None):
    out = []
    if how == "xml-io":
        try:
            root = etree.fromstring(artefact)
        except etree.XMLSyntaxError as e:
            return [("flat-xml:not-well-formed", {"exc": repr(e)}, None)]
        flat_paras = odftext.paragraphs(root)
        flat = [odftext.project(p) for p in flat_paras]
        if plain_flat is None:
            # plain flat export: same element structure, content inclusion (images are replaced
            # wholesale by their payload)
            out += [(m, d, None) for m, d in DL.flat_structure_issues(E0, artefact)]
            out += [(m, d, None) for m, d in DL.flat_payload_issues(E0, artefact)]
            have = set(flat)
            for name in ("styles.xml", "content.xml"):
                if name in E0:
                    for t in DL.paragraph_texts(E0[name]):
                        if t and t not in have:
                            out.append(("flat-xml:paragraph-missing", {"part": name, "text": t[:160]}, None))
                            return out
            return out
        # pretty flat export vs the plain flat export of the same state: layout only
        try:
            proot = etree.fromstring(plain_flat)
        except etree.XMLSyntaxError as e:
            return [("flat-xml:not-well-formed", {"exc": repr(e)}, None)]
        if DL.skeleton(plain_flat) != DL.skeleton(artefact):
            out.append(("flat-xml:structure-or-attribute-differs", {}, None))
            return out
        pp = odftext.paragraphs(proot)
        for k, (p1, p2) in enumerate(zip(pp, flat_paras)):
            t1, t2 = odftext.project(p1), odftext.project(p2)
            if t1 != t2:
                fid = "F-D6" if known.f_d6_pretty_leak(p1, t1, t2) else None
                out.append(("flat-xml:paragraph-text-differs", {"paragraph": k, "expected": t1[:200], "got": t2[:200], "xml": etree.tostring(p1, encoding="unicode")[:400]}, fid))
                break
        n1, n2 = DL.non_paragraph_text(plain_flat), DL.non_paragraph_text(artefact)
        n1 = [x for x in n1 if not x[0].endswith("}generator")]
        n2 = [x for x in n2 if not x[0].endswith("}generator")]
        if n1 != n2:
            d = next((k for k in range(min(len(n1), len(n2))) if n1[k] != n2[k]), min(len(n1), len(n2)))
            out.append(("flat-xml:character-data-differs", {"expected": str(n1[d : d + 1])[:200], "got": str(n2[d : d + 1])[:200]}, None))
        return out
    A = dict(pkg.parts)
    ef = {k for k in E0 if not k.endswith("/")}
    if ef != set(A):
        lost, inv = sorted(ef - set(A)), sorted(set(A) - ef)
        if not (lost == [] and inv == ["manifest.rdf"]) and not (inv == [] and lost == ["manifest.rdf"]):
            out.append(("layout:member-set-differs", {"lost": lost[:5], "invented": inv[:5]}, None))
    for name in sorted(ef & set(A)):
        if DL.is_xml_name(name):
            if pretty:
                out += layout_compare(name, E0[name], A[name])
            elif not DL.xml_equal(E0[name], A[name], name):
                out.append(("plain-save:xml-part-differs", {"part": name, "hint": DL.first_diff(E0[name], A[name], name)}, None))
        elif E0[name] != A[name]:
            out.append(("binary-part-differs", {"part": name}, None))
    return out


def run_case(case, res):
    with DL.TmpDir() as tmp:
        doc = DL.open_source(case["source"])
        model = DL.EditModel()
        for op in case.get("edits", []):
            DL.apply_edit(doc, op, model, tmp)
        E0 = DL.expected_state(doc, model)
        prev = None
        seen_cfg = {}
        reuse = {} if case.get("reuse") else None
        if case.get("reuse") == "folder":
            reuse["occupant"] = case.get("occupant", "background.odp")
        for i, (pretty, packaging) in enumerate(case["saves"]):
            how = {"zip": "zip-io" if i % 2 else "zip-path", "folder": "folder", "xml": "xml-io"}[packaging]
            if reuse is not None and packaging == "zip" and case["reuse"] != "folder":
                how = case["reuse"]  # every zip save of the sequence into the same BytesIO / the same path
            before = DL.expected_state(doc, model)
            try:
                use = reuse if (reuse is not None and (case["reuse"] != "folder" or packaging == "folder")) else None
                artefact, pkg = DL.save_doc(doc, how, tmp, pretty=pretty, tag=str(i) + str(case.get("name_key", "")), reuse=use)
            except Exception as e:
                import traceback

                return [(f"save-raised:{type(e).__name__}", {"exc": repr(e), "tb": traceback.format_exc()[-800:], "config": [pretty, packaging]}, None)]
            after = DL.expected_state(doc, model)
            plain_flat = None
            if how == "xml-io" and pretty:
                plain_flat, _ = DL.save_doc(doc, "xml-io", tmp, pretty=False, tag=f"{i}p")
            out = []
            # (b) the save did not edit memory
            mem = DL.compare_states(before, after, what="memory-after-save")
            # save() may reconcile manifest.rdf (documented) - not an edit of the document content
            mem = [(m, d) for m, d in mem if not (m.endswith("part-lost") and d["parts"] == ["manifest.rdf"]) and not (m.endswith("part-invented") and d["parts"] == ["manifest.rdf"])]
            out += [(m, dict(d, config=[pretty, packaging]), None) for m, d in mem]
            # (a) layout only
            out += [(m, dict(d, config=[pretty, packaging], save_index=i), fid) for m, d, fid in judge_artefact(E0, how, pretty, artefact, pkg, plain_flat)]
            # (c) the same configuration again writes the same content
            key = (pretty, packaging)
            if pkg is not None:
                if key in seen_cfg:
                    for name, data in pkg.parts.items():
                        old = seen_cfg[key].get(name)
                        if old is not None and DL.is_xml_name(name) and not DL.xml_equal(old, data, name):
                            out.append(("repeated-save:content-differs", {"part": name, "config": list(key), "hint": DL.first_diff(old, data, name)}, None))
                            break
                seen_cfg[key] = dict(pkg.parts)
            if res is not None:
                res.judge()
                res.cls((case["source"]["kind"], "pretty" if pretty else "plain", packaging, f"save{i}", f"after={prev}", case.get("pair", ""), "same-target:" + case["reuse"] if case.get("reuse") else ""), True)
            if out:
                return out
            prev = f"{'pretty' if pretty else 'plain'}-{packaging}"
    return None


def pair_spec(a, b, seed):
    paras = [{"h": False, "pieces": [a, b]}, {"h": False, "pieces": ["text", a, b, "text"]}, {"h": True, "pieces": ["text", a, b]}, {"h": False, "pieces": [a, b, "text"]}, {"h": False, "pieces": [a, b, "span"]}, {"h": False, "pieces": ["span", a, b, "link"]}]
    return {"type": "text", "seed": seed, "paras": paras, "table": False, "image": False}


def run(ctx, res):
    i = 0
    # every template and sample under every configuration, alone and after a pretty save
    base = [{"kind": "template", "name": t} for t in DL.TEMPLATES] + [{"kind": "sample", "name": s} for s in DL.sample_files()]
    for src in base:
        for cfg in CONFIGS:
            i += 1
            if not ctx.mine(i):
                continue
            seqs = [[cfg]] if ctx.quick and i % 3 else [[cfg], [(True, "zip"), cfg], [cfg, cfg]]
            for saves in seqs:
                case = {"source": src, "saves": saves}
                v = run_case(case, res)
                if v:
                    m, d, fid = v[0]
                    res.violation(m, d, {"case": case}, known=fid)
    # every ordered pair of inline kinds adjacent
    kinds = DL.INLINE_KINDS
    for a in kinds:
        for b in kinds:
            i += 1
            if not ctx.mine(i):
                continue
            for saves in ([(True, "zip")], [(True, "xml")], [(True, "folder"), (False, "zip")]):
                case = {"source": {"kind": "generated", "spec": pair_spec(a, b, i)}, "saves": saves, "pair": f"{a}>{b}"}
                v = run_case(case, res)
                if v:
                    m, d, fid = v[0]
                    res.violation(f"{m}", dict(d, pair=f"{a}>{b}"), {"case": case}, known=fid)
    # pictures around and beyond 64 KiB, in every configuration
    for k, size in enumerate([65535, 65536, 65537, 98304, 200000]):
        i += 1
        if not ctx.mine(i):
            continue
        for cfg in CONFIGS:
            spec = {"type": "text", "seed": 7 + k, "paras": [{"h": False, "pieces": ["text"]}], "table": False, "image": True, "image_twice": k % 2 == 0, "big_image": size}
            case = {"source": {"kind": "generated", "spec": spec}, "saves": [cfg]}
            v = run_case(case, res)
            if v:
                m, d, fid = v[0]
                res.violation(m, dict(d, picture_size=size), {"case": case}, known=fid)
    for c in range(CASES[ctx.tier]):
        rng = ctx.rng(c)
        saves = [rng.choice(CONFIGS) for _ in range(rng.randint(1, 3))]
        case = {"source": DL.gen_source(rng), "edits": DL.gen_edits(rng, rng.choice([0, 1, 3]), allow=["touch_body", "touch_styles", "append_paragraph", "meta_title", "insert_style", "table_set_value", "add_file_io", "insert_image_frame", "touch_manifest"]), "saves": saves}
        if rng.random() < 0.5:
            case["name_key"] = "k%d" % rng.randrange(500)
        r_ = rng.random()
        if r_ < 0.35:
            # the zip saves of the sequence all go to one target, larger archive first
            case["reuse"] = rng.choice(["zip-io", "zip-io", "zip-path"])
            case["saves"] = [(True, "zip")] + saves + [(False, "zip")]
        elif r_ < 0.55:
            # the folder saves go to one place, which already holds a folder save of another document
            case["reuse"] = "folder"
            case["occupant"] = rng.choice(["background.odp", "example.odp", "frame_image.odp"])
            case["saves"] = saves + [(rng.random() < 0.5, "folder")]
        v = run_case(case, res)
        if c < 2:
            res.sample(case)
        if v:
            m, d, fid = v[0]
            res.violation(m, d, {"case": case}, known=fid)


def replay(case):
    v = run_case(case["case"], None)
    return [{"mechanism": m, "detail": d, "known": fid} for m, d, fid in (v or [])]


MANIFEST = {
    "text": "Exploration by runtime monitoring: templates, samples, decorated packages and generated paragraphs covering every ordered adjacency of fourteen inline kinds (incl. lone no-break spaces) are saved under every pretty x packaging configuration and in sequences of saves (a third of them writing every zip of the sequence into one BytesIO object or one path, the larger pretty archive first); an independent reader compares each artefact layout-insensitively (element skeleton, attribute values, O-TEXT reading of every paragraph and heading, other character data) with the in-memory state taken before the first save; a purity monitor compares the in-memory state before and after every save; repeated configurations must write equal content. Held = no difference on the saves observed, apart from listed known findings.",
    "note": "Trusted: vf/oracles/odftext.py for 'white space consumers ignore', lxml, zipfile. Known finding F-D6 (pretty-print indentation leaking into paragraphs with non-text inline children) is classified by vf/known.py on the plain paragraph, not on the outcome.",
    "technique": "runtime monitoring: layout-insensitive independent reader of every artefact + before/after purity digest of the in-memory document",
}
