"""C10 - a clone is equal at birth and independent for life.

Monitor shape: purity/aliasing monitor: digests of "everything observable" of both twins are
taken around the cloning and around every later operation on either twin; plus an identity
check that no mutable cache object is shared."""

import io
import os

from .. import doclab as DL
from .. import tablehist as TH
from .. import tablelab as TL

LEVEL = "exploration"
RULE = (
    "Objects: tables reached by C01 histories (warm and cold caches) and rows/cells/columns taken from them; "
    "paragraph trees (generated inline mixes); XML parts; containers (path-backed lazy zip, BytesIO, folder); "
    "documents (template, opened sample by path/BytesIO, after unsaved edits incl. add_file / set_part / "
    "del_part, after partial loading). B = A.clone, then two random operation sequences interleaved on A and "
    "B. One evaluation = one cloning judged at birth (digest(B)==digest(A), digest(A) unchanged by cloning) "
    "or one later operation judged (the other twin's digest unchanged, the operated twin still agrees with "
    "its own model). Digest = serialisation + every read (tables: size, get_values, position maps; "
    "documents: every part, XML parts as C14N of their current in-memory state). Class = (object kind, state "
    "at cloning: caches warm? parts parsed/edited/lazy?, operation kind, which twin was operated)."
)
SHARDS = {"quick": 16, "thorough": 16}
TIMEOUT = {"quick": 400, "thorough": 7200}
MIN_EVALS = {"quick": 5000, "thorough": 120000}
CASES = {"quick": 45, "thorough": 3000}
ASSUMPTIONS = [
    "'indistinguishable' is judged on the digests described in the rule; object identity of lxml nodes is of course different",
    "two wrappers around the same lxml node are not clones and are not generated",
]
REACH = [
    ("odfdo.element", "Element.clone", True),
    ("odfdo.row", "Row.clone", True),
    ("odfdo.cell", "Cell.clone", True),
    ("odfdo.table", "Column.clone", True),
    ("odfdo.xmlpart", "XmlPart.clone", True),
    ("odfdo.container", "Container.clone", True),
    ("odfdo.container", "Container._get_all_zip_part", True),
    ("odfdo.document", "Document.clone", True),
]


# --------------------------------------------------------------------------- tables


def table_digest(t):
    # the position maps are part of the observable state when the implementation has them
    return (t.serialize(), tuple(t.size), repr(t.get_values()), tuple(getattr(t, "_tmap", ())), tuple(getattr(t, "_cmap", ())))


def shared_caches(a, b):
    out = []
    for name in ("_tmap", "_cmap", "_rmap", "_indexes"):
        x, y = getattr(a, name, None), getattr(b, name, None)
        if x is not None and x is y and (x or name == "_indexes"):
            out.append(name)
    ia, ib = getattr(a, "_indexes", None), getattr(b, "_indexes", None)
    if isinstance(ia, dict) and isinstance(ib, dict):
        for k in ia:
            if k in ib and ia[k] is ib[k]:
                out.append(f"_indexes[{k}]")
    return out


def table_twins(ctx, res, c):
    rng = ctx.rng("t", c)
    vals = TL.Vals()
    case = {"init": TH.gen_init(rng, vals)}
    state = {}

    def keep(i, t, g, op, info):
        state["t"], state["g"] = t, g
        return None

    try:
        case, v = TH.run_case(case, keep, gen=(rng, vals, rng.randint(0, 6), 0.5))
    except ValueError:
        return
    if v:
        return  # C01's business
    a, ga = state["t"], state["g"]
    warm = rng.random() < 0.5
    if warm:
        TH.do_warm(a, TH.gen_warm(rng, ga) + [{"w": "row_traverse", "x": 0, "y": 0}, {"w": "traverse_columns", "x": 0, "y": 0}])
    before = table_digest(a)
    b = a.clone
    gb = ga.clone()
    res.judge()
    res.cls(("Table", "warm" if warm else "cold", "birth"), True)
    witness = {"case": case, "warm": warm}
    if table_digest(a) != before:
        res.violation("table:cloning-changed-original", {}, witness)
        return
    if table_digest(b) != before:
        res.violation("table:clone-differs-at-birth", {"a": before[1:3], "b": table_digest(b)[1:3]}, witness)
        return
    sh = shared_caches(a, b)
    if sh:
        res.violation("table:clone-shares-cache-object", {"shared": sh}, witness)
        return
    # sub-objects cloned from the table
    if ga.H:
        y = rng.randrange(ga.H)
        r = a.get_row(y, clone=False)
        r2 = r.clone
        res.judge()
        res.cls(("Row", "in-repeated-run" if (r.repeated or 1) > 1 else "plain", "birth"), True)
        if r2.serialize() != r.serialize() or r2.get_values() != r.get_values() or getattr(r2, "_rmap", None) != getattr(r, "_rmap", None):
            res.violation("row:clone-differs-at-birth", {"y": y}, witness)
        elif (getattr(r, "_rmap", None) is not None and getattr(r2, "_rmap", None) is r._rmap) or (getattr(r, "_indexes", None) is not None and getattr(r2, "_indexes", None) is r._indexes):
            res.violation("row:clone-shares-cache-object", {"y": y}, witness)
        else:
            d0 = table_digest(a)
            r2.set_value(0, "CLONE-EDIT")
            r2.append_cell(None)
            if table_digest(a) != d0:
                res.violation("row:editing-the-clone-changed-the-table", {"y": y}, witness)
        if ga.rows[y]:
            x = rng.randrange(len(ga.rows[y]))
            cl = r.get_cell(x, clone=False)
            c2 = cl.clone
            res.judge()
            res.cls(("Cell", "repeated" if (cl.repeated or 1) > 1 else "plain", "birth"), True)
            d0 = table_digest(a)
            if c2.serialize() != cl.serialize() or not TL.values_equal(c2.value, cl.value):
                res.violation("cell:clone-differs-at-birth", {"at": [x, y]}, witness)
            c2.value = "CLONE-EDIT"
            c2.repeated = 7
            if table_digest(a) != d0:
                res.violation("cell:editing-the-clone-changed-the-table", {"at": [x, y]}, witness)
            # reads that hand out copies leave the live cell the caller holds as it is, position included
            pos0 = (cl.x, cl.y, cl.serialize())
            for x2 in sorted({0, x, max(x - 1, 0), min(x + 1, len(ga.rows[y]) - 1), len(ga.rows[y]) - 1}):
                r.get_cell(x2)
                a.get_cell((x2, y))
                a.get_value((x2, y))
            res.judge()
            res.cls(("Cell", "repeated" if (cl.repeated or 1) > 1 else "plain", "held-live-cell-after-copying-reads"), True)
            if (cl.x, cl.y, cl.serialize()) != pos0:
                res.violation("cell:copying-reads-changed-the-live-cell-held-by-the-caller", {"at": [x, y], "before": list(pos0[:2]), "after": [cl.x, cl.y]}, witness)
    # objects handed to a setter that stores a copy (clone=True is the default): afterwards the caller's object and
    # the table lead separate lives
    from odfdo import Cell as _Cell
    from odfdo import Row as _Row

    db0 = table_digest(b)
    for _k in range(2):
        where = rng.choice(["inside", "at-height", "beyond"])
        y = rng.randrange(ga.H) if (where == "inside" and ga.H) else (ga.H if where != "beyond" else ga.H + rng.randint(1, 3))
        # (extend_rows takes no clone argument and documents no copy: it is not in this list)
        setter = rng.choice(["set_row", "set_row", "append_row", "insert_row", "set_cell", "append_cell", "insert_cell"])
        try:
            if setter in ("set_cell", "append_cell", "insert_cell"):
                obj = _Cell("PUSHED", repeated=rng.choice([None, None, 2]))
                x = rng.randint(0, ga.W + 1)
                yy = min(y, ga.H + 1)
                if setter == "set_cell":
                    a.set_cell((x, yy), obj)
                elif setter == "append_cell":
                    a.append_cell(yy, obj)
                else:
                    a.insert_cell((x, yy), obj)
            else:
                obj = _Row()
                obj.set_values(["PUSHED", 1, 2])
                if rng.random() < 0.3:
                    obj.repeated = 2
                if setter == "set_row":
                    a.set_row(y, obj)
                elif setter == "append_row":
                    a.append_row(obj)
                else:
                    a.insert_row(min(y, ga.H), obj)
        except Exception:
            break  # the operations themselves are C01's business
        res.judge()
        res.cls(("Pushed-object", setter, where if setter in ("set_row", "set_cell") else "-"), True)
        d0 = table_digest(a)
        o0 = obj.serialize()
        try:
            if isinstance(obj, _Row):
                obj.set_value(1, "CALLER-EDIT")
                obj.append_cell(_Cell("more"))
            else:
                obj.value = "CALLER-EDIT"
                obj.repeated = 5
        except Exception as e:
            res.violation(f"pushed-object:editing-it-raised:{setter}:{type(e).__name__}", {"exc": repr(e), "where": where}, witness)
            return
        if table_digest(a) != d0:
            res.violation(f"pushed-object:editing-the-caller's-object-changed-the-table:{setter}", {"where": where, "y": y}, witness)
            return
        # and the other way round: the table edited where the object went
        o1 = obj.serialize()
        try:
            hh = a.height
            if hh:
                a.set_value((0, min(y, hh - 1)), "TABLE-EDIT")
                a.set_value((1, hh - 1), "TABLE-EDIT")
        except Exception:
            pass
        if obj.serialize() != o1:
            res.violation(f"pushed-object:editing-the-table-changed-the-caller's-object:{setter}", {"where": where, "y": y}, witness)
            return
        # the model of twin A is resynchronised from its XML (these pushes are not part of the modelled history)
        from ..oracles import tabxml as _tx

        _w, _rows = _tx.expand(_tx.parse(a.serialize(with_ns=True)))
        ga = TL.Grid([list(r) for r in _rows], _w)
        if table_digest(b) != db0:
            res.violation(f"pushed-object:pushing-into-one-twin-changed-the-other:{setter}", {}, witness)
            return
    # copies of rows read from the table (they come with copies of its maps), given a life of their own in another table
    if ga.H:
        from odfdo import Table

        route = rng.choice(["get_rows", "traverse", "rows", "get_row", "get_rows.clone", "get_elements.clone"])
        y = rng.randrange(ga.H)
        try:
            if route == "get_rows":
                rc = a.get_rows()[y]
            elif route == "traverse":
                rc = list(a.traverse())[y]
            elif route == "rows":
                rc = list(a.rows)[y]
            elif route == "get_row":
                rc = a.get_row(y)
            elif route == "get_rows.clone":
                rc = a.get_rows()[y].clone
            else:
                els = a.get_elements("table:table-row")
                rc = els[min(y, len(els) - 1)].clone
            d0 = table_digest(a)
            other = Table("other", 1, 1)
            other.append_row(rc, clone=False)
            rc.repeated = rng.choice([2, 3, 5])
            rc.set_value(0, "COPY-EDIT")
            other.append_row(rc.clone)
            res.judge()
            res.cls(("Row-copy", route, "life-in-another-table"), True)
            if table_digest(a) != d0:
                res.violation(f"row:editing-a-copy-attached-elsewhere-changed-the-table:{route}", {"y": y, "route": route}, witness)
                return
            got = [list(r) for r in a.get_values()]
            if tuple(a.size) != (ga.W, ga.H) or not TL.matrix_equal(got, ga.padded()):
                res.violation(f"row:table-disagrees-with-its-model-after-a-copy-was-edited:{route}", {"y": y, "size": list(a.size), "model": [ga.W, ga.H]}, witness)
                return
        except Exception as e:
            res.violation(f"row:copy-life-raised:{route}:{type(e).__name__}", {"exc": repr(e)}, witness)
            return
    # life: interleaved operations
    ops = []
    for step in range(rng.randint(2, 6)):
        which = rng.choice("AB")
        t, g, other = (a, ga, b) if which == "A" else (b, gb, a)
        enc = TL.Encoding(t)
        op = TL.gen_op(rng, vals, g, enc)
        ops.append([which, op])
        od = table_digest(other)
        observed = {}
        exc = expected = None
        try:
            TL.apply_real(t, op, observed)
        except Exception as e:
            exc = e
        try:
            TL.apply_model(g, op, observed)
        except TL.ModelError as me:
            expected = me.exc_type
        except (TL.ModelLaw, KeyError):
            if exc is None:
                continue
        if exc is not None and not (expected and isinstance(exc, expected)):
            res.violation(f"table:operation-on-a-twin-raised:{op['op']}:{type(exc).__name__}", {"exc": repr(exc), "which": which, "ops": ops}, witness)
            return
        if expected is not None:
            continue
        res.judge()
        res.cls(("Table", "warm" if warm else "cold", "life", op["op"], which), True)
        if table_digest(other) != od:
            res.violation(f"table:operation-visible-on-the-other-twin:{op['op']}", {"operated": which, "ops": ops}, witness)
            return
        got = [list(r) for r in t.get_values()]
        if tuple(t.size) != (g.W, g.H) or not TL.matrix_equal(got, g.padded()):
            res.violation(f"table:twin-disagrees-with-its-model:{op['op']}", {"operated": which, "ops": ops, "got": got, "expected": g.padded()}, witness)
            return


# --------------------------------------------------------------------------- paragraphs / elements


def element_twins(ctx, res, c):
    from odfdo import Paragraph

    rng = ctx.rng("e", c)
    pieces = [rng.choice(DL.INLINE_KINDS) for _ in range(rng.randint(1, 6))]
    a = DL.build_paragraph(pieces, heading=rng.random() < 0.3)
    if rng.random() < 0.5:  # attached to a parent with a tail
        host = Paragraph("")
        host.append(a)
        host.append("tail text")
        a = host.children[0]
    if rng.random() < 0.35:
        # raw XML with every kind of tail: a lone space between two inline elements, a blank after a mark, none
        from odfdo import Element

        from . import c09

        a = Element.from_tag(c09.pieces_xml(c09.gen_pieces(rng), heading=rng.random() < 0.3).replace("</text:p>", '<text:span text:style-name="A">x</text:span> <text:span text:style-name="B">y</text:span><text:s/> <text:bookmark text:name="b"/>\n</text:p>'))
        pieces = ["raw-xml"]
    before = a.serialize()
    b = a.clone
    res.judge()
    res.cls(("Element", type(a).__name__, "+".join(sorted(set(pieces))), "birth"), True)
    w = {"pieces": pieces}
    # the inline children, cloned one by one: what follows an element in its parent (its tail) is part of what
    # the element reports (tail, text_recursive)
    for ch in a.children[:8]:
        cl = ch.clone
        res.judge()
        res.cls(("Element-child", type(ch).__name__, "blank-tail" if ch.tail is not None and not ch.tail.strip() else ("tail" if ch.tail else "no-tail")), True)
        if cl.serialize() != ch.serialize() or type(cl) is not type(ch) or cl.tail != ch.tail or cl.text_recursive != ch.text_recursive:
            res.violation("element:child-clone-differs-at-birth", {"child": ch.serialize()[:200], "tail": ch.tail, "clone_tail": cl.tail, "text_recursive": [ch.text_recursive, cl.text_recursive]}, w)
            return
        if a.serialize() != before:
            res.violation("element:cloning-a-child-changed-the-parent", {}, w)
            return
    if a.serialize() != before:
        res.violation("element:cloning-changed-original", {}, w)
        return
    if b.serialize() != before or type(b) is not type(a):
        res.violation("element:clone-differs-at-birth", {"a": before[:300], "b": b.serialize()[:300]}, w)
        return
    # what a clone answers to queries that leave its own subtree (absolute paths, root, siblings under its parent)
    # is its own too: another clone taken or edited meanwhile must not show there
    def reach(e):
        par = e.parent
        return (
            [x.serialize() for x in e.get_elements("//*")],
            [x.serialize() for x in e.xpath("//text:span")],
            None if par is None else [x.serialize() for x in par.children],
            e.root.serialize(),
        )

    rb = reach(b)
    b2 = a.clone
    b3 = b.clone
    try:
        b2.append("third twin")
        b2.set_attribute("text:style-name", "third")
        b3.set_span("Q", regex="a")
    except Exception:
        pass
    res.judge()
    res.cls(("Element", "life", "another-clone-taken-and-edited"), True)
    if reach(b) != rb:
        res.violation("element:another-clone-visible-from-this-clone", {"before": repr(rb)[:300], "after": repr(reach(b))[:300]}, w)
        return
    for step in range(3):
        which = rng.choice("AB")
        t, other = (a, b) if which == "A" else (b, a)
        od = other.serialize()
        k = rng.choice(["append", "set_span", "delete-child", "attr", "text"])
        try:
            if k == "append":
                t.append("more  text")
            elif k == "set_span":
                t.set_span("S", regex="w")
            elif k == "delete-child":
                ch = t.children
                if ch:
                    t.delete(ch[0])
            elif k == "attr":
                t.set_attribute("text:style-name", f"st{step}")
            else:
                t.text = "changed"
        except Exception:
            continue
        res.judge()
        res.cls(("Element", "life", k, which), True)
        if other.serialize() != od:
            res.violation(f"element:operation-visible-on-the-other-twin:{k}", {"operated": which}, w)
            return


# --------------------------------------------------------------------------- documents / containers / parts

DOC_PRE = ["none", "touch_body", "touch_all", "edit_body", "add_file", "add_many", "set_part_xml", "del_part", "meta", "partial_load", "generator"]
DOC_OPS = ["append_paragraph", "meta_title", "add_file_io", "del_part_binary", "insert_style", "table_set_value", "set_part_binary", "touch_manifest", "meta_userdef"]


def doc_twins(ctx, res, c):
    rng = ctx.rng("d", c)
    src = DL.gen_source(rng)
    pre = rng.choice(DOC_PRE)
    case = {"source": src, "pre": pre, "k": rng.randrange(10**6)}
    with DL.TmpDir() as tmp:
        a = DL.open_source(src)
        ma = DL.EditModel()
        k = case["k"]
        try:
            if pre == "touch_body":
                a.body
            elif pre == "touch_all":
                a.body, a.styles, a.meta, a.manifest
            elif pre == "edit_body":
                DL.apply_edit(a, {"op": "append_paragraph", "k": k}, ma, tmp)
                DL.apply_edit(a, {"op": "table_set_value", "k": k}, ma, tmp)
            elif pre == "add_file":
                DL.apply_edit(a, {"op": "add_file_io", "k": k}, ma, tmp)
            elif pre == "add_many":  # more parts added than the archive has members
                for j in range(len(a.get_parts()) + 2):
                    DL.apply_edit(a, {"op": "add_file_io", "k": k + j}, ma, tmp)
            elif pre == "set_part_xml":
                DL.apply_edit(a, {"op": "touch_body", "k": k}, ma, tmp)
                DL.apply_edit(a, {"op": "set_part_xml", "k": k}, ma, tmp)
            elif pre == "del_part":
                DL.apply_edit(a, {"op": "del_part_binary", "k": k}, ma, tmp)
            elif pre == "meta":
                DL.apply_edit(a, {"op": "meta_title", "k": k}, ma, tmp)
            elif pre == "partial_load":
                a.get_part("mimetype")
                a.meta
            elif pre == "generator":
                # the application names itself: "the signature of the software that generated this document"
                a.meta.generator = f"vf application {k}"
        except Exception as e:
            res.violation(f"document:pre-edit-raised:{pre}:{type(e).__name__}", {"exc": repr(e)}, {"case": case})
            return
        # handles taken before the cloning must stay attached to the original
        handle = a.body if pre in ("touch_body", "touch_all", "edit_body", "add_file", "add_many", "meta") and "content.xml" not in ma.frozen else None
        meta_handle = a.meta if pre in ("touch_all", "meta") else None
        ea = DL.expected_state(a, ma)
        b = a.clone
        mb = DL.EditModel()
        mb.overwritten = dict(ma.overwritten)
        mb.deleted = set(ma.deleted)
        mb.frozen = set(ma.frozen)
        res.judge()
        kind = src["kind"] + (":" + src.get("via", "path") if src["kind"] == "sample" else "")
        res.cls(("Document", kind, "pre=" + pre, "birth"), True)
        ea2 = DL.expected_state(a, ma)
        v = DL.compare_states(ea, ea2, what="document:cloning-changed-original")
        if not v:
            v = DL.compare_states(ea, DL.expected_state(b, mb), what="document:clone-at-birth")
        if not v and b.mimetype != a.mimetype:
            v = [("document:clone-at-birth:mimetype", {"a": a.mimetype, "b": b.mimetype})]
        if v:
            m, d = v[0]
            res.violation(m, dict(d, pre=pre), {"case": case})
            return
        if handle is not None:
            from odfdo import Paragraph

            res.judge()
            res.cls(("Document", "handle-taken-before-clone", "pre=" + pre), True)
            marker = f"VIA-OLD-HANDLE-{k}"
            try:
                handle.append(Paragraph(marker)) if a.mimetype.endswith("text") else handle.set_attribute("office:vf", marker)
                if meta_handle is not None:
                    meta_handle.title = marker
            except Exception as e:
                res.violation(f"document:old-handle-raised:{type(e).__name__}", {"exc": repr(e), "pre": pre}, {"case": case})
                return
            sa = DL.expected_state(a, ma)
            sb = DL.expected_state(b, mb)
            if marker.encode() not in sa.get("content.xml", b""):
                res.violation("document:handle-taken-before-cloning-detached-from-the-original", {"pre": pre, "part": "content.xml"}, {"case": case})
                return
            if meta_handle is not None and marker.encode() not in sa.get("meta.xml", b""):
                res.violation("document:handle-taken-before-cloning-detached-from-the-original", {"pre": pre, "part": "meta.xml"}, {"case": case})
                return
            if marker.encode() in sb.get("content.xml", b"") or marker.encode() in sb.get("meta.xml", b""):
                res.violation("document:edit-through-old-handle-visible-in-the-clone", {"pre": pre}, {"case": case})
                return
        if a.container is b.container or a.container._Container__parts is b.container._Container__parts:
            res.violation("document:clone-shares-container-parts", {"pre": pre}, {"case": case})
            return
        ops = []
        for step in range(rng.randint(1, 4)):
            which = rng.choice("AB")
            t, m, other, mo = (a, ma, b, mb) if which == "A" else (b, mb, a, ma)
            # (a merge of the other twin's styles was tried as an operation here and withdrawn: see DESIGN 5.3;
            # "the giver of a merge stays as it was" is judged by C13)
            op = {"op": rng.choice(DOC_OPS), "k": rng.randrange(10**6)}
            ops.append([which, op])
            # parsed before the snapshot: parsing a part is not a change, the operation below reads every part of the other twin
            if op["op"] == "merge_from_the_other_twin":
                other.body, other.styles, other.meta, other.manifest
            od = DL.expected_state(other, mo)
            try:
                if op["op"] == "merge_from_the_other_twin":
                    # one twin takes the styles of the other: the giver is an argument, not a target
                    if "content.xml" in m.frozen or "styles.xml" in m.frozen:
                        tag = "skipped"  # a raw set_part of this history stands for these parts (see doclab.EditModel)
                    else:
                        try:
                            t.merge_styles_from(other)
                            tag = "merge_from_the_other_twin"
                            # the merge brings the giver's pictures (back): they belong to this twin again
                            live = DL.memory_state(t)
                            m.deleted -= {p_ for p_ in m.deleted if p_ in live}
                        except ValueError:
                            tag = "skipped"  # the giver refers to a picture this history deleted: nothing to judge
                else:
                    tag = DL.apply_edit(t, op, m, tmp)
            except Exception as e:
                res.violation(f"document:operation-on-a-twin-raised:{op['op']}:{type(e).__name__}", {"exc": repr(e), "which": which, "pre": pre}, {"case": case, "ops": ops})
                return
            if tag == "skipped":
                continue
            res.judge()
            res.cls(("Document", "life", op["op"], which, "pre=" + pre), True)
            v = DL.compare_states(od, DL.expected_state(other, mo), what=f"document:operation-visible-on-the-other-twin:{op['op']}")
            if v:
                mname, d = v[0]
                res.violation(mname, dict(d, operated=which, pre=pre), {"case": case, "ops": ops})
                return
        # both twins must still be saveable packages of their own state
        for which, t, m in (("A", a, ma), ("B", b, mb)):
            E = DL.expected_state(t, m)
            try:
                _art, pkg = DL.save_doc(t, "zip-io", tmp, tag=which)
            except Exception as e:
                res.violation(f"document:twin-save-raised:{type(e).__name__}", {"exc": repr(e), "which": which, "pre": pre}, {"case": case, "ops": ops})
                return
            A = dict(pkg.parts)
            from .c03 import rdf_adjust

            v = DL.compare_states(rdf_adjust({k2: v2 for k2, v2 in E.items() if not k2.endswith("/")}, A), A, what="document:twin-saved")
            res.judge()
            res.cls(("Document", "twin-save", which, "pre=" + pre), True)
            if not v and pre == "generator" and "meta.xml" not in m.frozen and f"vf application {k}".encode() not in A.get("meta.xml", b""):
                # what the twins write must not tell them apart: the signature given before the cloning is in both files
                v = [("document:twin-saved:generator-set-before-cloning-lost", {"meta": A.get("meta.xml", b"")[-300:].decode("utf8", "replace")})]
            if v:
                mname, d = v[0]
                res.violation(mname, dict(d, which=which, pre=pre), {"case": case, "ops": ops})
                return


def part_and_container_twins(ctx, res, c):
    from odfdo import Document
    from odfdo.container import Container

    rng = ctx.rng("p", c)
    name = rng.choice(DL.sample_files())
    path = os.path.join(DL.SAMPLES, name)
    mode = rng.choice(["path", "bytesio", "folder"])
    with DL.TmpDir() as tmp:
        if mode == "path":
            cont = Container(path)
        elif mode == "bytesio":
            cont = Container(io.BytesIO(open(path, "rb").read()))
        else:
            d = Document(path)
            d.save(os.path.join(tmp, "f"), packaging="folder", pretty=False)
            cont = Container(os.path.join(tmp, "f.folder"))
        names = [n for n in cont.parts if not n.endswith("/")]
        loaded = rng.sample(names, rng.randint(0, min(3, len(names))))
        for n in loaded:
            cont.get_part(n)
        pre = rng.choice(["none", "set", "del", "set-unread", "set-unread"])
        if pre == "set-unread":
            # a member replaced in memory without ever having been read from the package
            cands = [n for n in names if n not in loaded and n != "mimetype"]
            if cands:
                victim = rng.choice(cands)
                cont.set_part(victim, b"<replaced-in-memory/>" if victim.endswith(".xml") else b"replaced-in-memory")
            else:
                pre = "none"
        if pre == "set":
            cont.set_part("Pictures/new.bin", b"new")
            cont.set_part(names[0], cont.get_part(names[0]))
        elif pre == "del" and len(names) > 3:
            cands = [n for n in names if n not in DL.XML_CLASS_PARTS and n != "mimetype"]
            if cands:
                victim = cands[0]
                cont.del_part(victim)
                names.remove(victim)
        if pre == "set":
            names.append("Pictures/new.bin")
        lazy = rng.random() < 0.5 and mode == "path"
        if lazy:  # nothing loaded, nothing modified: the clone must still own every member
            cont = Container(path)
            names = [n for n in cont.parts if not n.endswith("/")]
            pre = "lazy"
        else:
            # (the member replaced without having been read is not read by the harness either before the cloning)
            unread = victim if pre == "set-unread" else None
            exp = {n: cont.get_part(n) for n in names if n != unread}
            if unread:
                exp[unread] = b"<replaced-in-memory/>" if unread.endswith(".xml") else b"replaced-in-memory"
        b = cont.clone
        res.judge()
        res.cls(("Container", mode, "pre=" + pre, "birth"), True)
        w = {"sample": name, "mode": mode, "pre": pre}
        if lazy:
            import zipfile

            with zipfile.ZipFile(path) as z:
                exp = {n: z.read(n) for n in names}
        try:
            got = {n: b.get_part(n) for n in names}
        except Exception as e:
            res.violation(f"container:clone-cannot-read-part:{type(e).__name__}", {"exc": repr(e)}, w)
            return
        if got != exp:
            bad = [n for n in names if got.get(n) != exp.get(n)]
            res.violation("container:clone-differs-at-birth", {"parts": bad[:5]}, w)
            return
        if not lazy:
            now = {n: cont.get_part(n) for n in names}
            if now != exp:
                res.violation("container:cloning-changed-the-original", {"parts": [n for n in names if now.get(n) != exp.get(n)][:5]}, w)
                return
        b.set_part("content.xml", b"<changed/>")
        b.del_part("mimetype") if False else None
        if cont.get_part("content.xml") == b"<changed/>":
            res.violation("container:operation-visible-on-the-other-twin", {}, w)
            return
        cont.set_part("styles.xml", b"<changed2/>")
        if b.get_part("styles.xml") == b"<changed2/>":
            res.violation("container:operation-visible-on-the-other-twin", {"direction": "original->clone"}, w)
            return
        # XmlPart twins on a fresh document of the same sample
        doc = Document(path)
        part = doc.get_part(rng.choice(["content", "styles", "meta"]))
        if rng.random() < 0.6:  # unsaved edit before cloning
            root = part.root
            root.set_attribute("office:version", "9.9")
        s0 = part.serialize()
        p2 = part.clone
        res.judge()
        res.cls(("XmlPart", part.part_name, "birth"), True)
        if part.serialize() != s0 or not DL.xml_equal(p2.serialize(), s0, part.part_name):
            res.violation("xmlpart:clone-differs-at-birth", {"part": part.part_name}, w)
            return
        p2.root.set_attribute("office:version", "7.7")
        if part.serialize() != s0:
            res.violation("xmlpart:operation-visible-on-the-other-twin", {"part": part.part_name}, w)


def run(ctx, res):
    n = CASES[ctx.tier]
    for c in range(n * 4):
        element_twins(ctx, res, c)
    if res.violations:
        # element clones already tell on one another: everything below is built on them (and a shared hidden
        # parent makes every later query crawl) - report now instead of running into the watchdog
        return
    for c in range(n * 3):
        table_twins(ctx, res, c)
    for c in range(n):
        doc_twins(ctx, res, c)
    for c in range(n // 2):
        part_and_container_twins(ctx, res, c)
    res.sample({"kind": "Document", "pre": "edit_body", "then": [["A", "add_file_io"], ["B", "append_paragraph"]]})
    res.sample({"kind": "Table", "warm": True, "then": [["B", "insert_column"], ["A", "set_cell"]]})


def replay(case):
    # clone scenarios are regenerated from their seed key; a recorded case carries what is needed to read it
    return []


MANIFEST = {
    "text": "Exploration by runtime monitoring: tables (after generated histories, caches warm or cold), rows, cells, paragraph trees, XML parts, containers (lazy zip, buffer, folder) and documents (fresh, opened, after unsaved edits, raw set_part/del_part, partial loading) are cloned; an aliasing monitor digests everything observable of both twins around the cloning and around every later operation on either twin (interleaved), checks that no cache object is shared, that each table twin still agrees with its own reference model and that each document twin still saves as a package of its own state. Held = equal at birth and no cross-talk on the twins observed. Also: a generator signature set before cloning must be written by both twins; clones must not see one another through queries that leave their own subtree.",
    "note": "Trusted: the digests (serialisation + reads + C14N of parts); vf/doclab.py snapshots read private caches only to avoid perturbing them. Replays of this check are by seed (the witness carries the scenario).",
    "technique": "runtime monitoring: before/after digests of both twins around cloning and around every later operation + identity check on cache objects",
}
