"""C13 - styles land in the right container, stay unique by family+name, are found again.

Monitor shape: history + executable model.  A model of the style census
{(part, container, tag, family, name)} is advanced with each call by the rule table of the
property; after every step an independent XPath census (lxml over the in-memory parts, no
odfdo) must equal the model, and the returned name must resolve through the document's
style lookup to the very node just inserted - also after save and reload."""

import io

from lxml import etree

from .. import doclab as DL

LEVEL = "exploration"
RULE = (
    "On each template and on lpod_styles.odt, example.odp, styled_table.ods, example.odt: sequences of 1-8 "
    "operations from {insert_style over every family of FAMILY_MAPPING that Style() can build (named common, "
    "named automatic, unnamed automatic, default for the families the docstring allows, as Style object or as "
    "XML string, same family+name twice, same name in two families, names shaped odfdo_auto_N planted by hand "
    "in common or automatic styles with gaps, more than ten unnamed automatic styles of one family), "
    "set_table_displayed (tables with and without an existing style), add_page_break_style (twice), "
    "delete_styles, merge_styles_from(other document)}. One evaluation = one operation judged: independent "
    "census == model (right part and container, multiplicity 1, nothing else changed), returned name looked up "
    "through Document.get_style is the inserted node, generated names are new for that family in every "
    "container, merge = union with the source winning and the source unchanged; at the end the document is "
    "saved and reloaded and every inserted style must be found again, C14N-equal, in the same container. "
    "Class = (operation, family, kind, named?, pre-existing same family+name?, document type)."
)
SHARDS = {"quick": 16, "thorough": 16}
TIMEOUT = {"quick": 400, "thorough": 7200}
MIN_EVALS = {"quick": 6000, "thorough": 150000}
CASES = {"quick": 120, "thorough": 30000}
ASSUMPTIONS = [
    "automatic and common styles of one family share one name space: the same family+name is not planted in both kinds by the generator (generated automatic names must avoid both on their own)",
    "rule table: common -> styles.xml/office:styles; automatic -> content.xml/office:automatic-styles; default -> styles.xml/office:styles as style:default-style; master-page -> styles.xml/office:master-styles; page-layout -> styles.xml/office:automatic-styles; font-face -> content.xml (default: styles.xml) office:font-face-decls",
]
REACH = [
    ("odfdo.document", "Document.insert_style", True),
    ("odfdo.document", "Document._set_automatic_name", True),
    ("odfdo.document", "Document._insert_style_standard", True),
    ("odfdo.document", "Document.merge_styles_from", True),
    ("odfdo.document", "Document.set_table_displayed", True),
    ("odfdo.document", "Document.add_page_break_style", True),
    ("odfdo.document", "Document.delete_styles", True),
    ("odfdo.styles", "Styles._get_style_contexts", True),
    ("odfdo.element", "Element.get_style", True),
]

OFFICE = "urn:oasis:names:tc:opendocument:xmlns:office:1.0"
STYLE = "{urn:oasis:names:tc:opendocument:xmlns:style:1.0}"
DRAW = "{urn:oasis:names:tc:opendocument:xmlns:drawing:1.0}"
CONTAINERS = ["styles", "automatic-styles", "master-styles", "font-face-decls"]
DEFAULT_OK = ["paragraph", "text", "section", "table", "table-column", "table-row", "table-cell", "chart", "drawing-page", "graphic", "presentation", "ruby"]
SOURCES = ["text", "spreadsheet", "presentation", "drawing", "lpod_styles.odt", "example.odp", "styled_table.ods", "example.odt"]
# further documents merged from (automatic number styles in styles.xml, pictures in styles, ...)
MERGE_EXTRA = ["issue_28_pretty.odt", "background.odp", "simple_table.ods", "minimal_hidden.ods", "note.odt", "toc_done.odt", "frame_image.odp", "md_style.odt"]


def open_doc(name):
    import os

    from odfdo import Document

    if name.startswith("variant:"):
        # the same document as another producer could have written it: empty style containers left out
        import io

        _v, base, seed = name.split(":")
        return Document(io.BytesIO(DL.variant_package(base, int(seed))))
    if name in DL.TEMPLATES:
        return Document(name)
    return Document(os.path.join(DL.SAMPLES, name))


def family_of(el):
    from odfdo.utils import FALSE_FAMILY_MAP_REVERSE

    fam = el.get(STYLE + "family")
    if fam:
        return fam
    q = etree.QName(el)
    pref = {"urn:oasis:names:tc:opendocument:xmlns:style:1.0": "style", "urn:oasis:names:tc:opendocument:xmlns:text:1.0": "text", "urn:oasis:names:tc:opendocument:xmlns:datastyle:1.0": "number", "urn:oasis:names:tc:opendocument:xmlns:drawing:1.0": "draw"}.get(q.namespace, "?")
    return FALSE_FAMILY_MAP_REVERSE.get(f"{pref}:{q.localname}", "")


def census(doc):
    """Independent census of both style parts. -> dict key -> list of lxml nodes
    key = (part, container, tag localname, family, name)"""
    out = {}
    for part, xp in (("content.xml", doc.content), ("styles.xml", doc.styles)):
        root = xp.root._Element__element
        for cont in CONTAINERS:
            c = root.find("{%s}%s" % (OFFICE, cont))
            if c is None:
                continue
            for ch in c:
                if not isinstance(ch.tag, str):
                    continue
                name = ch.get(STYLE + "name") or ch.get(DRAW + "name")
                key = (part, cont, etree.QName(ch).localname, family_of(ch), name)
                out.setdefault(key, []).append(ch)
    return out


def keys_sig(cen):
    return {k: len(v) for k, v in cen.items()}


def node_sig(n):
    """Infoset signature of a style node: expanded names, attributes, character data — not the prefixes
    (a style copied into a document that binds the same namespace to another prefix is the same style)."""

    def walk(e):
        if not isinstance(e.tag, str):
            return ("#", e.text or "")
        return (e.tag, tuple(sorted(e.attrib.items())), (e.text or "").strip(), tuple(walk(c) for c in e), )

    return repr(walk(n)).encode()


def expected_place(family, automatic, default):
    if family == "master-page":
        return ("styles.xml", "master-styles")
    if family == "page-layout":
        return ("styles.xml", "automatic-styles")
    if family == "font-face":
        return ("styles.xml" if default else "content.xml", "font-face-decls")
    if default:
        return ("styles.xml", "styles")
    if automatic:
        return ("content.xml", "automatic-styles")
    return ("styles.xml", "styles")


def buildable_families():
    from odfdo import Style
    from odfdo.utils import FAMILY_MAPPING

    ok = []
    for fam in sorted(FAMILY_MAPPING):
        try:
            kw = {}
            if fam == "master-page":
                kw["page_layout"] = "pl1"
            if fam == "font-face":
                kw["font_name"] = "probe"
            s = Style(fam, name="probe", **kw)
            if s.family == fam:
                ok.append(fam)
        except Exception:
            pass
    return ok


def gen_ops(rng, families, n):
    ops = []
    used = []
    for i in range(n):
        k = rng.random()
        if k < 0.7:
            fam = rng.choice(families)
            kind = rng.choice(["common", "common", "automatic", "automatic-unnamed", "automatic-unnamed", "default"])
            if fam in ("master-page", "page-layout", "font-face"):
                kind = rng.choice(["common", "font-default"] if fam == "font-face" else ["common", "automatic"])
            if kind == "default" and fam not in DEFAULT_OK:
                kind = "common"
            if used and rng.random() < 0.3:  # same family+name again / same name in another family
                ofam, oname, okind = rng.choice(used)
                if rng.random() < 0.6:
                    fam, name, kind = ofam, oname, okind
                else:
                    name = oname
            else:
                name = rng.choice([f"S{i}", f"vf style {i}", f"odfdo_auto_{rng.choice([1, 2, 5, 9, 10, 11])}", f"é{i}"])
                if rng.random() < 0.12:
                    # names an application may show to users: both kinds of quote, also at the edges and doubled
                    name = rng.choice([f"O'Neil \"Display\" {i}", f"\"Brush\" d'or {i}", f"5\" x 7' card {i}", f"'a' \"\"b\"\" {i}\"", f"true", "false", f"\"'{i}", f"it's \"{i}"])
                if fam == "paragraph" and kind == "common" and rng.random() < 0.25:
                    name = "odfdopagebreak"  # a user style that happens to carry the reserved name
                if fam == "table" and rng.random() < 0.5:
                    name = f"ta_{rng.choice([0, 0, 1, 2])}"  # a user style named like the ones set_table_displayed generates
            if kind == "automatic-unnamed":
                name = None
            op = {"op": "insert_style", "family": fam, "kind": kind, "name": name, "as_xml": rng.random() < 0.15, "name_arg": rng.random() < 0.15}
            if name and kind != "default" and rng.random() < 0.2:
                # the name of a style this family already has somewhere in the document (resolved at run time;
                # an automatic style of styles.xml is planted the way another producer writes it when there is none)
                op["existing_from"] = rng.choice([["styles.xml", "automatic-styles"], ["styles.xml", "automatic-styles"], ["styles.xml", "styles"], ["styles.xml", "font-face-decls"], ["content.xml", "font-face-decls"], ["styles.xml", "master-styles"]])
            ops.append(op)
            if name and rng.random() < 0.2:
                # theme: the same insertion again with a fresh, identical object, then once more with other content
                ops.append(dict(op, as_xml=False))
                ops.append(dict(op, as_xml=rng.random() < 0.3, colour="#654321"))
            if name:
                used.append((fam, name, kind))
        elif k < 0.78:
            ops.append({"op": "many_unnamed", "family": rng.choice(["paragraph", "text", "table-cell"]), "n": rng.choice([3, 11, 12])})
        elif k < 0.86:
            ops.append({"op": "set_table_displayed", "displayed": rng.random() < 0.5, "with_style": rng.random() < 0.6, "plant_common": rng.choice([None, None, "ta_0", "ta_1", "ta_0"])})
        elif k < 0.92:
            ops.append({"op": "add_page_break_style"})
        elif k < 0.94:
            ops.append({"op": "delete_styles"})
        else:
            ops.append({"op": "merge_styles_from", "other": rng.choice(SOURCES + MERGE_EXTRA)})
    return ops


def make_style(op):
    from odfdo import Style

    kw = {}
    if op["family"] == "master-page":
        kw["page_layout"] = "pl1"
    name = None if op.get("name_arg") else op["name"]
    if op["family"] == "font-face":
        # (a font face is named by its font: no name given on the fly)
        name = op["name"]
        kw["font_name"] = name
        kw["font_family"] = "vf family"
    st = Style(op["family"], name=name, **kw)
    if op["family"] in ("paragraph", "text"):
        st.set_properties({"fo:color": op.get("colour", "#123456")}, area="text")
    elif op.get("colour") and op["family"] == "font-face":
        st.set_attribute("style:font-pitch", "fixed")
    elif op.get("colour") and op["family"] not in ("master-page", "page-layout"):
        st.set_attribute("style:display-name", "vf " + op["colour"])
    if op["family"] == "paragraph" and op["name"] == "odfdopagebreak":
        st.set_properties({"fo:margin-top": "1cm"}, area="paragraph")
    return st


def family_of_node(n):
    return n.get("{urn:oasis:names:tc:opendocument:xmlns:style:1.0}family")


def name_of_node(n):
    return n.get("{urn:oasis:names:tc:opendocument:xmlns:style:1.0}name")


def run_case(case, res):
    from odfdo import Table

    doc = open_doc(case["source"])
    doc.body, doc.styles  # parsed
    dtype = doc.mimetype.rsplit(".", 1)[-1]
    inserted = []  # (family, name, key) to re-find after reload
    for i, op in enumerate(case["ops"]):
        before = census(doc)
        bsig = keys_sig(before)
        o = op["op"]
        out = []
        cls = (o, dtype)
        try:
            if o == "insert_style":
                fam, kind = op["family"], op["kind"]
                automatic = kind.startswith("automatic")
                default = kind in ("default", "font-default")
                if op.get("existing_from"):
                    op = dict(op)
                    epart, econt = op["existing_from"]
                    have = sorted(k[4] for k in before if k[0] == epart and k[1] == econt and k[3] == fam and k[4] and k[2] != "default-style")
                    # (only names that one style of the family carries: a name already ambiguous is the caller's mistake)
                    have = [h for h in have if sum(len(v) for k, v in before.items() if k[3] == fam and k[4] == h and k[2] != "default-style") == 1]
                    if have:
                        op["name"] = have[0]
                    elif (
                        (epart, econt) == ("styles.xml", "automatic-styles")
                        and fam not in ("master-page", "page-layout", "font-face")
                        and not any(k[3] == fam and k[4] == op["name"] for k in before)
                        # only where the insertion goes to the same part (a common style) and the family is written as
                        # style:style: an automatic style of styles.xml is in another scope than those of content.xml
                        and expected_place(fam, automatic, default)[0] == "styles.xml"
                        and make_style(op).tag == "style:style"
                    ):
                        proot = doc.styles.root._Element__element
                        cont_el = proot.find("{%s}automatic-styles" % OFFICE)
                        if cont_el is not None:
                            planted = etree.SubElement(cont_el, STYLE + "style")
                            planted.set(STYLE + "name", op["name"])
                            planted.set(STYLE + "family", fam)
                            before = census(doc)
                            bsig = keys_sig(before)
                st = make_style(op)
                arg = st.serialize(with_ns=True) if op.get("as_xml") else st
                kwargs = {"automatic": automatic, "default": default}
                if op.get("name_arg") and op["name"] and fam != "font-face":
                    kwargs["name"] = op["name"]
                pre_same = any(k[3] == fam and k[4] == op["name"] for k in before) if op["name"] else False
                if op["name"] and kind != "default":
                    part0, cont0 = expected_place(fam, automatic, default)
                    if any(k[3] == fam and k[4] == op["name"] and k[0] != part0 for k in before):
                        # same family+name already exists in the other part: one name space, caller's mistake
                        if res is not None:
                            res.count("skipped_same_name_other_kind")
                        continue
                    # the same family+name in another container of the *same* part (an automatic style of
                    # styles.xml, say) is what the library itself looks up and replaces: judged, see below
                    same_part_other = [k for k in before if k[3] == fam and k[4] == op["name"] and k[0] == part0 and k[1] != cont0 and k[2] != "default-style"]
                else:
                    same_part_other = []
                ret = doc.insert_style(arg, **kwargs)
                after = census(doc)
                part, cont = expected_place(fam, automatic, default)
                cls = (o, fam, kind, "named" if op["name"] else "unnamed", "pre-existing-other-container" if same_part_other else "pre-existing" if pre_same else "new", "xml" if op.get("as_xml") else "obj", dtype)
                if kind == "default":
                    hits = [k for k in after if k[0] == part and k[1] == cont and k[2] == "default-style" and k[3] == fam]
                    if len(hits) != 1 or len(after[hits[0]]) != 1:
                        out.append(("insert_style:default-not-unique-in-office:styles", {"family": fam, "found": [list(k) for k in hits]}))
                else:
                    name = ret
                    if op["name"] and ret != op["name"]:
                        out.append(("insert_style:returned-name-differs", {"given": op["name"], "returned": ret}))
                    if kind == "automatic-unnamed":
                        clash = [list(k) for k in before if k[3] == fam and k[4] == ret]
                        if clash or not ret:
                            out.append(("insert_style:generated-name-collides", {"family": fam, "generated": ret, "existing": clash}))
                    hits = [k for k in after if k[3] == fam and k[4] == name and k[2] != "default-style"]
                    right = [k for k in hits if k[0] == part and k[1] == cont]
                    if len(right) != 1 or len(after[right[0]]) != 1:
                        out.append(("insert_style:not-exactly-one-in-the-required-container", {"family": fam, "name": name, "required": [part, cont], "found": [list(k) + [len(after[k])] for k in hits]}))
                    else:
                        new_node = after[right[0]][0]
                        # nothing else changed: every other key keeps its multiplicity and its nodes
                        asig = keys_sig(after)
                        exp = dict(bsig)
                        exp[right[0]] = 1
                        for k in same_part_other:
                            # replaced along with it or left alone: the property demands neither
                            if k not in asig:
                                exp.pop(k, None)
                        if asig != exp:
                            diff = {str(k): [bsig.get(k), asig.get(k)] for k in set(asig) | set(exp) if asig.get(k) != exp.get(k)}
                            out.append(("insert_style:other-styles-changed", {"diff": dict(list(diff.items())[:5])}))
                        # lookup through the document
                        got = doc.get_style(fam, name)
                        if got is None or got._Element__element is not new_node:
                            other = [list(k) for k in hits if k != right[0]]
                            out.append(("insert_style:lookup-does-not-return-the-inserted-style", {"family": fam, "name": name, "got": None if got is None else got.serialize()[:200], "same_name_elsewhere": other}))
                        if not op.get("as_xml") and st._Element__element is not new_node:
                            # "puts it in the part and container": what is adjusted on the object after the call
                            # (the idiom of set_table_displayed / add_page_break_style) must reach the document
                            out.append(("insert_style:the-object-given-is-not-the-one-in-the-document", {"family": fam, "name": name, "kind": kind, "pre_existing": pre_same}))
                        if same_part_other and res is not None:
                            res.count("same_name_in_other_container_of_the_part")
                        inserted.append((fam, name, right[0], node_sig(new_node)))
            elif o == "many_unnamed":
                fam = op["family"]
                names = []
                for _ in range(op["n"]):
                    from odfdo import Style

                    names.append(doc.insert_style(Style(fam), automatic=True))
                after = census(doc)
                cls = (o, fam, f"n={op['n']}", dtype)
                if len(set(names)) != len(names):
                    out.append(("insert_style:generated-names-repeat", {"family": fam, "names": names}))
                for nm in names:
                    if any(k[3] == fam and k[4] == nm for k in before):
                        out.append(("insert_style:generated-name-collides", {"family": fam, "generated": nm}))
                        break
                    if sum(len(v) for k, v in after.items() if k[3] == fam and k[4] == nm) != 1:
                        out.append(("insert_style:generated-name-not-unique", {"family": fam, "name": nm}))
                        break
            elif o == "set_table_displayed":
                if not dtype.startswith("spreadsheet"):
                    continue
                body = doc.body
                tables = body.get_tables()
                if not tables:
                    t = Table("T1", 2, 2)
                    body.append(t)
                    tables = [t]
                t = tables[0]
                old_style_name = t.style
                if op["with_style"] and not old_style_name:
                    from odfdo import Style

                    nm = doc.insert_style(Style("table", name="ta_vf"), automatic=True)
                    t.style = nm
                    old_style_name = nm
                    before = census(doc)
                if op.get("plant_common") and doc.get_style("table", op["plant_common"]) is None:
                    from odfdo import Style

                    # a user's common table style that happens to be named like the generated ones
                    doc.insert_style(Style("table", name=op["plant_common"]), automatic=False)
                    before = census(doc)
                sigs = {k: [node_sig(n) for n in v] for k, v in before.items()}
                tstyles_before = {}
                for k_, v_ in before.items():
                    for n_ in v_:
                        if family_of_node(n_) == "table" and name_of_node(n_):
                            tstyles_before.setdefault(name_of_node(n_), []).append(n_)
                found_before = {nm_: doc.get_style("table", nm_) for nm_ in tstyles_before}
                doc.set_table_displayed(t.name, op["displayed"])
                after = census(doc)
                new_name = t.style
                same = [n_ for v_ in after.values() for n_ in v_ if family_of_node(n_) == "table" and name_of_node(n_) == new_name]
                if len(same) != 1:
                    out.append(("set_table_displayed:generated-name-not-unique", {"name": new_name, "count": len(same)}))
                for nm_, el_ in found_before.items():
                    now_ = doc.get_style("table", nm_)
                    if el_ is not None and (now_ is None or now_._Element__element is not el_._Element__element):
                        out.append(("set_table_displayed:existing-style-shadowed", {"name": nm_}))
                        break
                cls = (o, "displayed" if op["displayed"] else "hidden", "had-style" if old_style_name else "no-style", dtype)
                # every pre-existing style is still there, unchanged
                for k, v in sigs.items():
                    now = [node_sig(n) for n in after.get(k, [])]
                    if now != v:
                        out.append(("set_table_displayed:existing-style-changed-or-lost", {"style": list(k)}))
                        break
                if doc.get_table_displayed(t.name) != op["displayed"]:
                    out.append(("set_table_displayed:flag-not-read-back", {"expected": op["displayed"]}))
                if old_style_name and doc.get_style("table", old_style_name) is None:
                    out.append(("set_table_displayed:old-style-not-found", {"name": old_style_name}))
            elif o == "add_page_break_style":
                doc.add_page_break_style()
                a1 = keys_sig(census(doc))
                doc.add_page_break_style()
                a2 = keys_sig(census(doc))
                if a1 != a2 or any(v > 1 for v in a2.values() if True and False):
                    out.append(("add_page_break_style:second-call-changed-the-styles", {}))
                dup = [list(k) for k, v in a2.items() if v > 1 and k not in {kk for kk, vv in bsig.items() if vv > 1}]
                if dup:
                    out.append(("add_page_break_style:duplicate-style", {"dup": dup[:3]}))
                if doc.get_style("paragraph", "odfdopagebreak") is None:
                    out.append(("add_page_break_style:style-not-found", {}))
                # another document asking for the same style must not take it away from this one
                from odfdo import Document

                other_doc = Document("text")
                other_doc.add_page_break_style()
                a3 = keys_sig(census(doc))
                if a3 != a2 or doc.get_style("paragraph", "odfdopagebreak") is None:
                    out.append(("add_page_break_style:style-lost-when-another-document-adds-it", {}))
                if other_doc.get_style("paragraph", "odfdopagebreak") is None:
                    out.append(("add_page_break_style:style-not-found-in-second-document", {}))
            elif o == "delete_styles":
                n = doc.delete_styles()
                after = census(doc)
                cls = (o, dtype)
                inserted = []
                if not isinstance(n, int) or n < 0:
                    out.append(("delete_styles:bad-count", {"returned": n}))
            elif o == "merge_styles_from":
                other = open_doc(op["other"])
                src_before = {k: [node_sig(n) for n in v] for k, v in census(other).items()}
                doc.merge_styles_from(other)
                after = census(doc)
                src_after = {k: [node_sig(n) for n in v] for k, v in census(other).items()}
                cls = (o, op["other"].rsplit(".", 1)[-1], dtype)
                if src_after != src_before:
                    lost = [list(k) for k in src_before if k not in src_after]
                    out.append(("merge_styles_from:source-document-changed", {"lost": len(lost), "examples": lost[:3]}))
                # union with the source winning, by (tag, family, name) in the same container kind
                for k, sigs in src_before.items():
                    # styles = the style elements odfdo documents (known family, or fill images)
                    if k[2] == "default-style" or not (k[3] or k[2] == "fill-image"):
                        continue
                    cand = [kk for kk in after if kk[2:] == k[2:] and kk[0] == k[0] and kk[1] == k[1]]
                    if not cand:
                        out.append(("merge_styles_from:source-style-missing-in-destination", {"style": list(k)}))
                        break
                    if k[4] and [node_sig(n) for n in after[cand[0]]] != sigs[-1:]:
                        fid = None
                        out.append(("merge_styles_from:source-definition-does-not-win", {"style": list(k), "copies": len(after[cand[0]])}, fid))
                        break
                for k in before:
                    # (a destination style may be replaced by the source's style of the same family and
                    # name living in another container of the same part: the source wins)
                    if k not in after and not any(kk[0] == k[0] and kk[2:] == k[2:] for kk in after):
                        out.append(("merge_styles_from:destination-style-lost", {"style": list(k)}))
                        break
                # unique by family+name inside each part (whatever the container), unless it was not before
                def per_part(cen):
                    d = {}
                    for k, v in cen.items():
                        if k[4] and k[2] != "default-style":
                            d[(k[0], k[2], k[3], k[4])] = d.get((k[0], k[2], k[3], k[4]), 0) + len(v)
                    return d

                # an inserted style the source replaced by its own of that family+name in another container of the
                # part (judged just above) is no longer expected at its old place after the reload
                inserted = [t for t in inserted if t[2] in after]
                pb, pa = per_part(before), per_part(after)
                dup = [list(k) + [n] for k, n in pa.items() if n > 1 and pb.get(k, 0) <= 1]
                if dup:
                    out.append(("merge_styles_from:same-family-and-name-twice-in-one-part", {"styles": dup[:4]}))
        except Exception as e:
            import traceback

            out.append((f"raised:{o}:{type(e).__name__}", {"exc": repr(e), "tb": traceback.format_exc()[-800:]}))
        if res is not None:
            res.judge()
            res.cls(cls, True)
        if out:
            return [(x[0], dict(x[1], step=i, op=op), x[2] if len(x) > 2 else None) for x in out]
    # save -> reload: everything inserted is found again in the same container
    if inserted:
        buf = io.BytesIO()
        doc.save(buf)
        buf.seek(0)
        from odfdo import Document

        doc2 = Document(buf)
        cen2 = census(doc2)
        if res is not None:
            res.judge()
            res.cls(("reload", dtype, f"n={min(len(inserted), 5)}"), True)
        final = {}
        for fam, name, key, sig in inserted:
            final[key] = (fam, name, sig)
        for key, (fam, name, sig) in final.items():
            if name is None:
                continue
            nodes = cen2.get(key, [])
            if len(nodes) != 1:
                return [("reload:inserted-style-not-unique-or-missing", {"style": list(key), "count": len(nodes)}, None)]
            got = doc2.get_style(fam, name)
            if got is None:
                return [("reload:lookup-fails", {"style": list(key)}, None)]
    return None


def run(ctx, res):
    fams = buildable_families()
    res.info["families"] = fams
    # themed cases first (every source): each kind of the families with a container of their own inserted three
    # times under one name (fresh identical object, then other content), under a new name and under the name of a
    # style the document already declares there
    themed = []
    for src in SOURCES:
        for fam, kind in (("font-face", "font-default"), ("font-face", "common"), ("master-page", "common"), ("page-layout", "common"), ("paragraph", "common"), ("paragraph", "automatic"), ("graphic", "common")):
            for ex in (None, {"font-default": ["styles.xml", "font-face-decls"], "automatic": None}.get(kind, ["content.xml", "font-face-decls"] if fam == "font-face" else ["styles.xml", "master-styles"] if fam == "master-page" else ["styles.xml", "automatic-styles"])):
                op = {"op": "insert_style", "family": fam, "kind": kind, "name": "vf themed", "as_xml": False, "name_arg": False}
                if ex:
                    op["existing_from"] = ex
                themed.append({"source": src, "ops": [op, dict(op), dict(op, colour="#654321"), dict(op, as_xml=True)]})
    themed = themed[ctx.shard :: ctx.nshards]
    for c in range(CASES[ctx.tier] + len(themed)):
        rng = ctx.rng(c)
        if c >= CASES[ctx.tier]:
            case = themed[c - CASES[ctx.tier]]
        else:
            case = {"source": SOURCES[c % len(SOURCES)], "ops": gen_ops(rng, fams, rng.randint(1, 8))}
        if c < CASES[ctx.tier] and rng.random() < 0.25:
            case["source"] = f"variant:{rng.choice(['text', 'spreadsheet', 'presentation', 'drawing', 'example.odt'])}:{rng.randrange(200)}"
        try:
            v = run_case(case, res)
        except Exception as e:
            import traceback

            v = [(f"harness-raised:{type(e).__name__}", {"exc": repr(e), "tb": traceback.format_exc()[-800:]}, None)]
        if c < 2:
            res.sample(case)
        if v:
            m, d, fid = v[0]
            res.violation(m, d, {"case": case}, known=fid)


def replay(case):
    v = run_case(case["case"], None)
    return [{"mechanism": m, "detail": d, "known": fid} for m, d, fid in (v or [])]


MANIFEST = {
    "text": "Exploration by runtime monitoring: on the templates and four sample documents, generated sequences of insert_style (every buildable family; common / automatic / unnamed automatic / default; objects and XML strings; repeated family+name; planted odfdo_auto_N names; more than ten unnamed styles), set_table_displayed, add_page_break_style, delete_styles and merge_styles_from are monitored step by step: an independent lxml census of both style parts is compared with the expectation of the rule table (required part and container, multiplicity one, nothing else changed), the returned name must resolve through Document.get_style to the very node inserted, generated names must be new for the family in every container, merging must yield the union with the source winning and the source unchanged, and a final save/reload must find every inserted style again. Held = census, lookups and reloads agreed on the sequences observed. Also: font faces; themed repeated insertions under one name (identical object, other content, XML string), under names the part already declares in another container; the object handed in must be the node found in the document.",
    "note": "Trusted: the rule table in DESIGN C13 / ASSUMPTIONS; lxml census. The same family+name is not planted in both common and automatic kinds by the generator.",
    "technique": "runtime monitoring: independent XPath census of both parts compared with a rule-table expectation after every call + lookup and reload oracle",
}
