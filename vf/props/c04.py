"""C04 - every saved file is a valid ODF package whose manifest matches its content.

Monitor shape: independent reader of the artefact (O-PKG: zipfile listing + independent parse
of META-INF/manifest.xml) applied to every zip the histories save, plus a model of the set of
files the package should contain."""

from .. import doclab as DL

LEVEL = "exploration"
RULE = (
    "Histories over {new from each of the 4 templates, open each sample (path or BytesIO), decorated "
    "packages}: 1-6 operations from {add_file(path), add_file(file-like), add_file of the same content again, "
    "del_part of a binary part, del_part of an added file, image frame, merge_styles_from(sample with header "
    "images / fill images / plain), clone (continue on the clone), parse manifest/body} then save to a zip "
    "(path or BytesIO, pretty or not), reopen, up to 3 cycles. One evaluation = one saved zip audited: "
    "'mimetype' first, stored, equal to the document type, ODF mimetype; no duplicate zip entries; manifest "
    "lists every file member except mimetype and the manifest itself exactly once, lists nothing absent "
    "(a listed directory is satisfied by any member below it), root entry carries the mimetype; files added "
    "by the history are present, deleted ones absent. Class = (document type, source kind, set of operation "
    "kinds in the history, same-content-added-twice?, deleted an added file?, pretty, cycle)."
)
SHARDS = {"quick": 16, "thorough": 16}
TIMEOUT = {"quick": 400, "thorough": 7200}
MIN_EVALS = {"quick": 1500, "thorough": 40000}
CASES = {"quick": 80, "thorough": 20000}
ASSUMPTIONS = [
    "a manifest entry for a directory ('Pictures/', 'Configurations2/') is satisfied by any member below it; zip directory entries need not be listed (LibreOffice practice, present in all templates)",
    "raw Document.set_part of a new binary path without a manifest entry is the caller's responsibility and is generated together with manifest.add_full_path",
]
REACH = [
    ("odfdo.container", "Container._save_zip", True),
    ("odfdo.document", "Document._add_binary_part", True),
    ("odfdo.document", "Document.add_file", True),
    ("odfdo.document", "Document.del_part", True),
    ("odfdo.document", "Document._check_manifest_rdf", True),
    ("odfdo.document", "Document.merge_styles_from", True),
    ("odfdo.document", "Document.clone", True),
    ("odfdo.document", "container_from_template", True),
    ("odfdo.manifest", "Manifest.add_full_path", True),
    ("odfdo.manifest", "Manifest.get_media_type", True),
]

OPS = ["add_file_path", "add_file_io", "add_file_same", "add_file_same", "del_part_binary", "del_added", "insert_image_frame", "merge_styles", "clone", "touch_manifest", "touch_body", "set_part_binary", "meta_title"]


def run_case(case, res):
    with DL.TmpDir() as tmp:
        doc = DL.open_source(case["source"])
        dtype = doc.mimetype.rsplit(".", 1)[-1]
        raw = DL.source_bytes(case["source"])
        baseline = DL.package_rules(DL.Package(raw)) if raw else []
        baseline = [b for b in baseline if b[0] in ("manifest-lists-absent-path", "file-not-listed-in-manifest", "manifest-lists-path-twice")]
        folder_reuse = {}
        for ci, cyc in enumerate(case["cycles"]):
            model = DL.EditModel()
            kinds = set()
            same_twice = 0
            twin = None
            twin_added_before = set()
            for op in cyc["edits"]:
                try:
                    if op["op"] == "clone":
                        mode = op["k"] % 3
                        if mode == 0:
                            doc = doc.clone
                        elif mode == 1:  # keep the clone aside, go on editing the original
                            twin = doc.clone
                            twin_added_before = set(DL.memory_state(twin))
                        else:  # go on editing the clone, keep the original aside
                            twin, doc = doc, doc.clone
                            twin_added_before = set(DL.memory_state(twin))
                        tag = "clone" + ["", "-twin-kept", "-original-kept"][mode]
                    else:
                        tag = DL.apply_edit(doc, op, model, tmp)
                except Exception as e:
                    import traceback

                    return [(f"edit-raised:{op['op']}:{type(e).__name__}", {"exc": repr(e), "tb": traceback.format_exc()[-800:], "cycle": ci})]
                if tag != "skipped":
                    kinds.add(tag.split(":")[0])
                    if tag == "add_file_same":
                        same_twice += 1
            expect_mt = doc.mimetype
            how = cyc["how"]
            if how == "via-folder":
                # saved as a folder at one and the same place in every cycle, the folder then opened and saved as zip
                from odfdo import Document as _D

                folder, _p = DL.save_doc(doc, "folder", tmp, pretty=cyc["pretty"], tag="F", reuse=folder_reuse)
                artefact, pkg = DL.save_doc(_D(folder), "zip-io", tmp, pretty=False, tag=str(ci))
            else:
                artefact, pkg = DL.save_doc(doc, how, tmp, pretty=cyc["pretty"], tag=str(ci))
            bad = DL.subtract_baseline(DL.package_rules(pkg, expect_mimetype=expect_mt), baseline)
            # model of the files the package should contain
            for uri in model.added:
                if uri not in model.deleted and uri not in pkg.files:
                    bad.append(("added-file-missing", {"uri": uri}))
            for path in model.deleted:
                if path in pkg.files:
                    bad.append(("deleted-part-present", {"path": path}))
            if twin is not None:
                # the other twin is a package of its own: nothing added after the cloning may leak in
                _a2, pkg2 = DL.save_doc(twin, "zip-io", tmp, pretty=False, tag=f"{ci}t")
                bad2 = DL.subtract_baseline(DL.package_rules(pkg2, expect_mimetype=expect_mt), baseline)
                bad += [("twin:" + m, d) for m, d in bad2]
                later = (set(model.added) - model.deleted) - twin_added_before
                leaked = sorted(u for u in later if u in pkg2.files)
                if leaked:
                    bad.append(("twin:file-added-to-the-other-twin-leaked", {"files": leaked[:4]}))
            if res is not None:
                res.judge()
                res.cls((dtype, case["source"]["kind"], "+".join(sorted(kinds)) or "none", "same-twice" if same_twice > 1 else "", "del-added" if "del_added" in kinds else "", "pretty" if cyc["pretty"] else "plain", f"cycle{ci}"), True)
            if bad:
                return [(f"package:{m}", dict(d, cycle=ci, how=how, ops=sorted(kinds))) for m, d in bad]
            doc = DL.reopen(artefact)
            if doc.mimetype != expect_mt:
                return [("package:reopened-mimetype-differs", {"expected": expect_mt, "got": doc.mimetype})]
    return None


def gen_case(rng):
    cycles = []
    for _ in range(rng.choice([1, 1, 2, 3])):
        n = rng.randint(0, 6)
        edits = DL.gen_edits(rng, n, allow=OPS)
        if rng.random() < 0.25:
            # themed history: styles merged from a source with pictures, one of the pictures it brought deleted,
            # the same source merged again (other edits in between)
            theme = [{"op": "merge_styles", "k": rng.choice([0, 1, 5, 10, 6])}, {"op": "del_part_binary", "k": 2 * rng.randrange(50) + 1}, {"op": "merge_styles", "k": 3 * rng.randrange(50) + rng.choice([1, 2])}]
            if rng.random() < 0.3:
                theme.append({"op": "del_part_binary", "k": 2 * rng.randrange(50) + 1})
            pos = sorted(rng.randrange(len(edits) + 1) for _ in theme)
            for off, (at, op) in enumerate(zip(pos, theme)):
                edits.insert(at + off, op)
        if rng.random() < 0.2:
            edits = DL.readd_theme(rng, edits)  # a file added, deleted, added again with the same content
        cycles.append({"edits": edits, "how": rng.choice(["zip-path", "zip-io", "zip-path", "zip-io", "via-folder"]), "pretty": rng.random() < 0.3})
    if len(cycles) > 1 and rng.random() < 0.3:
        for cyc in cycles:
            cyc["how"] = "via-folder"  # every cycle through the same folder: what an earlier cycle deleted must be gone
    return {"source": DL.gen_source(rng, allow_generated=True), "cycles": cycles}


def first_documents_of_the_process(ctx, res):
    """The first documents this process creates from each built-in template: what is done to one of them
    (a file added, a part deleted, not saved) must not show in the next one of the same type."""
    import io

    from odfdo import Document

    kinds = ["text", "spreadsheet", "presentation", "drawing"]
    for kind in kinds[ctx.shard % 4 :] + kinds[: ctx.shard % 4]:
        first = Document(kind)
        uri = first.add_file(io.BytesIO(DL.PNG + b"first-of-process-" + kind.encode()))
        victim = next((p for p in first.get_parts() if p.startswith("Thumbnails/") or p.endswith("current.xml")), None)
        if victim and ctx.shard % 2:
            first.del_part(victim)
        for n in (2, 3):
            other = Document(kind)
            buf = io.BytesIO()
            other.save(buf)
            pkg = DL.Package(buf.getvalue())
            res.judge()
            res.cls(("first-documents-of-the-process", kind, f"document{n}"), True)
            bad = DL.package_rules(pkg, expect_mimetype=other.mimetype)
            if uri in pkg.files:
                bad.append(("file-added-to-another-document-of-the-process", {"uri": uri}))
            for m, d in bad:
                res.violation(f"package:{m}", dict(d, kind=kind, scenario="first-documents-of-the-process"), {"scenario": "first-documents", "kind": kind})
            if bad:
                break


def managed_parts_case(src, which, res=None):
    """Deleting a part the library looks after itself - manifest.rdf (re-created or dropped from the manifest when
    saving), an XML part of an embedded object already parsed through get_part - then saving, reopening and saving
    again: a refusal (ValueError) is an answer, an inconsistent package is not."""
    out = []
    with DL.TmpDir() as tmp:
        doc = DL.open_source(src)
        raw = DL.source_bytes(src)
        baseline = DL.package_rules(DL.Package(raw)) if raw else []
        baseline = [b for b in baseline if b[0] in ("manifest-lists-absent-path", "file-not-listed-in-manifest", "manifest-lists-path-twice")]
        parts = list(doc.get_parts())
        if which == "manifest.rdf":
            victims = [p for p in parts if p == "manifest.rdf"]
        else:
            victims = [p for p in parts if "/" in p and p.rsplit("/", 1)[1] in ("content.xml", "styles.xml", "meta.xml", "settings.xml")][:2]
        if not victims:
            return out, "no-such-part"
        outcome = "deleted"
        for v in victims:
            try:
                if which == "object-part":
                    part = doc.get_part(v)
                    if hasattr(part, "root"):
                        part.root  # parsed: the document now holds the part in memory
                doc.del_part(v)
            except ValueError:
                outcome = "refused"
            except Exception as e:
                return [(f"edit-raised:del_part:{type(e).__name__}", {"exc": repr(e), "part": v})], "raised"
        for cycle in (0, 1):
            try:
                artefact, pkg = DL.save_doc(doc, "zip-io", tmp, pretty=False, tag=f"m{cycle}")
            except Exception as e:
                return [(f"save-raised:{type(e).__name__}", {"exc": repr(e), "after": f"del_part({victims})", "cycle": cycle})], outcome
            bad = DL.subtract_baseline(DL.package_rules(pkg, expect_mimetype=doc.mimetype), baseline)
            if bad:
                return [(f"package:{m}", dict(d, cycle=cycle, scenario=f"del_part({which})", outcome=outcome)) for m, d in bad], outcome
            doc = DL.reopen(artefact)
    return out, outcome


def run(ctx, res):
    first_documents_of_the_process(ctx, res)
    msrc = [{"kind": "template", "name": t} for t in DL.TEMPLATES] + [{"kind": "sample", "name": s} for s in DL.sample_files() if not DL.is_big(s)]
    for i, src in enumerate(msrc):
        if not ctx.mine(i):
            continue
        for which in ("manifest.rdf", "object-part"):
            try:
                v, outcome = managed_parts_case(src, which, res)
            except Exception as e:
                import traceback

                v, outcome = [(f"harness-raised:{type(e).__name__}", {"tb": traceback.format_exc()[-800:]})], "harness"
            if outcome != "no-such-part":
                res.judge()
                res.cls(("managed-part", which, src["kind"], outcome), True)
            for m, d in v[:1]:
                res.violation(m, d, {"scenario": "managed-part", "source": src, "which": which})
    base = [{"kind": "template", "name": t} for t in DL.TEMPLATES] + [{"kind": "sample", "name": s} for s in DL.sample_files()]
    for i, src in enumerate(base):
        if not ctx.mine(i):
            continue
        for pretty in (False, True):
            case = {"source": src, "cycles": [{"edits": [], "how": "zip-io", "pretty": pretty}]}
            v = run_case(case, res)
            if v:
                m, d = v[0]
                res.violation(m, d, {"case": case})
    for c in range(CASES[ctx.tier]):
        rng = ctx.rng(c)
        case = gen_case(rng)
        v = run_case(case, res)
        if c < 2:
            res.sample(case)
        if v:
            m, d = v[0]
            res.violation(m, d, {"case": case})
        res.count("histories")


def replay(case):
    if case.get("scenario") == "first-documents":
        from ..core import Res

        class _C:
            shard = 0

        r = Res()
        first_documents_of_the_process(_C, r)
        return r.violations
    if case.get("scenario") == "managed-part":
        v, _o = managed_parts_case(case["source"], case["which"])
        return [{"mechanism": m, "detail": d} for m, d in v]
    v = run_case(case["case"], None)
    return [{"mechanism": m, "detail": d} for m, d in (v or [])]


MANIFEST = {
    "text": "Exploration by runtime monitoring: every zip saved by generated histories (templates, samples, added files incl. identical content twice, deleted parts, image frames, merged styles with pictures (also merge - delete a picture it brought - merge again), clones, reopen cycles, pretty or not) is audited by an independent package reader: zip listing order and compression, duplicate names, independent parse of the manifest, listed-vs-present in both directions, root media type; a model of added/deleted files is compared with the members. Held = every audited zip satisfied every rule. Also: parts the library manages itself (manifest.rdf, parsed XML parts of embedded objects) deleted, then save - reopen - save.",
    "note": "Trusted: zipfile, lxml; the rule set in DESIGN C04 (directory entries handled the LibreOffice way).",
    "technique": "runtime monitoring: independent package auditor over every produced artefact + model of expected members",
}
