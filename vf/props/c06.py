"""C06 - typed values survive the trip through the document for every value of every type.

Monitor shape: independent reader of the artefact: each value is stored through a carrier and
read back directly, after re-parsing the element, and after saving and reopening a document;
the attribute actually written is checked against the lexical space with O-LEX.  The codec
contracts of vf.contracts are armed underneath (a broken codec surfaces as ContractBroken)."""

import datetime as dt
import io
from decimal import Decimal

from .. import contracts as K
from ..oracles import lex

LEVEL = "exploration"
RULE = (
    "Values from per-type boundary lattices (bool; int 0,+-1,+-2^31,+-2^63,10^30; finite floats incl. e+-300,"
    " 1e16, 1e-7, -0.0, 0.1; Decimals with trailing zeros/exponent/negative zero; strings: empty, spaces, "
    "TAB/LF, XML-special, non-ASCII, strings that look like other types; dates years 1,999,1000,9999 + leap "
    "days; datetimes with microseconds 0/1/999999 and zones naive/UTC/+-hh:mm; timedeltas 0, 1s, 59s, 1d, "
    "multi-day, negative, 400d; None) plus random values, through carriers {Cell(), Cell.value=, "
    "Cell.set_value, Row.set_value, Table.set_value, VarSet(+set_value), UserFieldDecl(+set_value), "
    "UserDefined (also built from the document's metadata entry of that name, with a fallback value), numbers also as percentage and currency cells (Cell(cell_type=), set_value(cell_type=, currency=)), Meta.set_user_defined_metadata (new entry and overwrite of an entry of another type)} and "
    "paths {direct, reparse of the element, document save->reopen}. One evaluation = one (value, carrier, "
    "path) read-back judged for value, Python type and lexical form of the written attribute. Class = "
    "(carrier, Python type, boundary tag, path). Sequences: rows of 2..8 values whose neighbours are often "
    "Python-equal but differently typed (True/1/1.0/Decimal(1)/'1', False/0/''/None, date/datetime at midnight, "
    "Decimal('1.50')/1.5) or true repeats, written through Row.set_values (with and without start), "
    "Table.set_values / set_row_values / set_column_values / append_row / set_row and read back through every "
    "matching getter, directly and after re-parsing: each position must keep its own value and type."
)
SHARDS = {"quick": 16, "thorough": 16}
TIMEOUT = {"quick": 300, "thorough": 3600}
MIN_EVALS = {"quick": 12000, "thorough": 200000}
ASSUMPTIONS = [
    "equal value of the corresponding type: bool->bool; int->int; float->int-or-Decimal d with float(d)==v; "
    "Decimal->numerically equal int-or-Decimal (metadata: Decimal); str->identical str; date->datetime at "
    "midnight (odfdo convention pinned by its tests); datetime->equal instant and utc offset; timedelta->equal; None->None",
    "NaN/inf floats, sub-second timedeltas and tz offsets with seconds are outside the stated domain",
]
REACH = [
    ("odfdo.element_typed", "ElementTyped.set_value_and_type", True),
    ("odfdo.element_typed", "ElementTyped._get_typed_value", True),
    ("odfdo.cell", "Cell.value", True),
    ("odfdo.cell", "Cell.set_value", True),
    ("odfdo.meta", "Meta.set_user_defined_metadata", True),
    ("odfdo.meta", "Meta._get_meta_value_full", True),
    ("odfdo.variable", "VarSet.set_value", True),
    ("odfdo.variable", "UserFieldDecl.set_value", True),
]

OFFICE = "{urn:oasis:names:tc:opendocument:xmlns:office:1.0}"
METANS = "{urn:oasis:names:tc:opendocument:xmlns:meta:1.0}"


def lattice(rng, n_random):
    """-> list of (value, typename, tag)"""
    L = []
    for v in (True, False):
        L.append((v, "bool", str(v)))
    for v, tag in [(0, "zero"), (1, "one"), (-1, "neg"), (2**31, "2^31"), (-(2**31), "-2^31"), (2**63, "2^63"), (-(2**63) - 1, "-2^63"), (10**30, "huge"), (255, "small")]:
        L.append((v, "int", tag))
    for v, tag in [(0.0, "zero"), (-0.0, "negzero"), (0.1, "tenth"), (1.5, "half"), (-2.25, "neg"), (1e16, "e16"), (1e300, "e300"), (1e-300, "e-300"), (1e-7, "e-7"), (123456789.125, "frac"), (2.0, "integral"), (5e-324, "denormal"), (1.7976931348623157e308, "max")]:
        L.append((v, "float", tag))
    for s, tag in [("0", "zero"), ("-0", "negzero"), ("1.50", "trailing0"), ("1E+3", "exp"), ("1.000", "integral-trailing0"), ("-12.75", "neg"), ("0.000001", "small"), ("123456789012345678901234567890.123456789", "long"), ("1E-10", "negexp"), ("100", "int")]:
        L.append((Decimal(s), "Decimal", tag))
    for s, tag in [("", "empty"), (" ", "space"), ("  two  spaces  ", "spaces"), ("tab\there", "tab"), ("line\nbreak", "lf"), ("<&>\"'", "xml"), ("éà日本", "nonascii"), ("true", "like-bool"), ("false", "like-bool-false"), ("True", "like-bool-cap"), ("2024-01-01", "like-date"), ("12", "like-int"), ("PT1H", "like-duration"), ("a" * 300, "long"), ("\U0001f600", "astral"), (" lead", "lead-space"), ("trail ", "trail-space")]:
        L.append((s, "str", tag))
    for (y, m, d), tag in [((1, 1, 1), "y1"), ((999, 12, 31), "y999"), ((1000, 1, 1), "y1000"), ((9999, 12, 31), "y9999"), ((2024, 2, 29), "leap"), ((2000, 2, 29), "leap2000"), ((1970, 1, 1), "epoch")]:
        L.append((dt.date(y, m, d), "date", tag))
    zones = [(None, "naive"), (dt.timezone.utc, "utc"), (dt.timezone(dt.timedelta(hours=5, minutes=30)), "east"), (dt.timezone(-dt.timedelta(hours=8)), "west")]
    for z, ztag in zones:
        for us, utag in [(0, "us0"), (1, "us1"), (999999, "us999999")]:
            for (y, mo, d, h, mi, s), ttag in [((2024, 1, 2, 3, 4, 5), "plain"), ((2024, 1, 2, 0, 0, 0), "midnight"), ((1, 1, 1, 23, 59, 59), "y1"), ((9999, 12, 31, 23, 59, 59), "y9999")]:
                if y == 1 and ztag == "east" or y == 9999 and ztag == "west":
                    continue  # utc conversion would overflow
                L.append((dt.datetime(y, mo, d, h, mi, s, us, tzinfo=z), "datetime", f"{ztag}+{utag}+{ttag}"))
    for v, tag in [(dt.timedelta(0), "zero"), (dt.timedelta(seconds=1), "1s"), (dt.timedelta(seconds=59), "59s"), (dt.timedelta(days=1), "1d"), (dt.timedelta(days=3, seconds=3661), "multiday"), (-dt.timedelta(seconds=1), "neg1s"), (-dt.timedelta(days=2, seconds=5), "negmulti"), (dt.timedelta(days=400), "400d"), (dt.timedelta(hours=23, minutes=59, seconds=59), "23:59:59")]:
        L.append((v, "timedelta", tag))
    L.append((None, "None", "none"))
    for _ in range(n_random):
        k = rng.randrange(7)
        if k == 0:
            L.append((rng.randint(-(10**18), 10**18), "int", "random"))
        elif k == 1:
            L.append((rng.uniform(-1e6, 1e6) * 10 ** rng.randint(-20, 20), "float", "random"))
        elif k == 2:
            L.append((Decimal(rng.randint(-(10**12), 10**12)).scaleb(-rng.randint(0, 8)), "Decimal", "random"))
        elif k == 3:
            alpha = "ab é\t\n<&\"'1-:. "
            L.append(("".join(rng.choice(alpha) for _ in range(rng.randint(0, 20))), "str", "random"))
        elif k == 4:
            L.append((dt.date.fromordinal(rng.randint(1, dt.date.max.toordinal())), "date", "random"))
        elif k == 5:
            z = rng.choice([None, dt.timezone.utc, dt.timezone(dt.timedelta(minutes=rng.randint(-720, 840)))])
            L.append((dt.datetime(rng.randint(2, 9998), rng.randint(1, 12), rng.randint(1, 28), rng.randint(0, 23), rng.randint(0, 59), rng.randint(0, 59), rng.choice([0, rng.randint(0, 999999)]), tzinfo=z), "datetime", "random"))
        else:
            L.append((dt.timedelta(seconds=rng.randint(-(10**8), 10**8)), "timedelta", "random"))
    return L


def typed_equal(v, got, meta=False):
    """Is `got` an equal value of the corresponding type? -> (ok, why)"""
    if v is None:
        return got is None, "expected None"
    if isinstance(v, bool):
        return type(got) is bool and got == v, "expected bool"
    if isinstance(v, int):
        if meta:
            return isinstance(got, Decimal) and got == v, "expected Decimal equal to the int"
        return type(got) is int and got == v, "expected int"
    if isinstance(v, float):
        if not isinstance(got, (int, Decimal)) or isinstance(got, bool):
            return False, "expected int or Decimal"
        return float(got) == v, "float(d) != v"
    if isinstance(v, Decimal):
        if not isinstance(got, (int, Decimal)) or isinstance(got, bool):
            return False, "expected int or Decimal"
        return Decimal(got) == v, "numerically different"
    if isinstance(v, str):
        return type(got) is str and got == v, "expected identical str"
    if isinstance(v, dt.datetime):
        return lex.same_datetime(got, v), "expected equal datetime with equal utc offset"
    if isinstance(v, dt.date):
        return isinstance(got, dt.datetime) and got == dt.datetime(v.year, v.month, v.day) and got.tzinfo is None, "expected datetime at midnight"
    if isinstance(v, dt.timedelta):
        return type(got) is dt.timedelta and got == v, "expected equal timedelta"
    return False, "unknown type"


def lexical_issue(v, attrs, prefix=OFFICE, text=None, numeric_type="float"):
    """Check the attributes written for value v; attrs is an lxml attrib mapping."""
    vt = attrs.get(prefix + "value-type")
    if v is None:
        return None if vt is None else f"value-type {vt!r} on an empty value"

    def need(t):
        return None if vt == t else f"value-type {vt!r}, expected {t!r}"

    if prefix == METANS:
        val = text
        getter = lambda name: val  # noqa: E731
    else:
        getter = lambda name: attrs.get(prefix + name)  # noqa: E731
    if isinstance(v, bool):
        s = getter("boolean-value")
        return need("boolean") or (None if s is not None and lex.RE_BOOLEAN.match(s) else f"boolean-value {s!r}")
    if isinstance(v, (int, float, Decimal)):
        s = getter("value")
        if numeric_type == "currency" and not attrs.get(prefix + "currency"):
            return "currency cell without office:currency"
        return need(numeric_type) or (None if s is not None and lex.RE_DOUBLE.match(s) else f"office:value {s!r} not in xsd:double")
    if isinstance(v, dt.datetime):
        s = getter("date-value")
        return need("date") or (None if s is not None and lex.RE_DATETIME.match(s) else f"date-value {s!r} not a dateTime")
    if isinstance(v, dt.date):
        s = getter("date-value")
        return need("date") or (None if s is not None and lex.RE_DATE.match(s) else f"date-value {s!r} not a date")
    if isinstance(v, dt.timedelta):
        s = getter("time-value")
        return need("time") or (None if s is not None and lex.in_duration_space(s) else f"time-value {s!r} not a duration")
    if isinstance(v, str):
        if prefix == METANS:
            return need("string") or (None if (text or "") == v else f"text {text!r}")
        s = getter("string-value")
        return need("string") or (None if s == v else f"string-value {s!r}")
    return None


CELL_CARRIERS = ["Cell()", "Cell.value=", "Cell.set_value", "Row.set_value", "Table.set_value"]
TYPED_CELL_CARRIERS = ["Cell(percentage)", "Cell(currency)", "Cell.set_value(percentage)", "Table.set_value(currency)"]  # numbers only
VAR_CARRIERS = ["VarSet()", "VarSet.set_value", "UserFieldDecl()", "UserFieldDecl.set_value", "UserDefined()", "UserDefined(from_document)"]


def store(carrier, v):
    """-> (element holding the value, reader function(element) -> value)"""
    from odfdo import Cell, Row, Table, UserDefined, UserFieldDecl, VarSet

    if carrier == "Cell()":
        return Cell(v), lambda c: c.value
    if carrier == "Cell.value=":
        c = Cell(12345)
        c.value = v
        return c, lambda c: c.value
    if carrier == "Cell.set_value":
        c = Cell("old")
        c.set_value(v)
        return c, lambda c: c.get_value()
    if carrier == "Row.set_value":
        r = Row(2)
        r.set_value(1, v)
        return r, lambda r: r.get_value(1)
    if carrier == "Table.set_value":
        t = Table("t", 2, 2)
        t.set_value((1, 1), v)
        return t, lambda t: t.get_value((1, 1))
    if carrier == "Cell(percentage)":
        return Cell(v, cell_type="percentage"), lambda c: c.value
    if carrier == "Cell(currency)":
        return Cell(v, cell_type="currency", currency="EUR"), lambda c: c.value
    if carrier == "Cell.set_value(percentage)":
        c = Cell("old")
        c.set_value(v, cell_type="percentage")
        return c, lambda c: c.get_value()
    if carrier == "Table.set_value(currency)":
        t = Table("t", 2, 2)
        t.set_value((1, 1), v, cell_type="currency", currency="CHF")
        return t, lambda t: t.get_value((1, 1))
    if carrier == "VarSet()":
        return VarSet("v", value=v), lambda e: e.get_value()
    if carrier == "VarSet.set_value":
        e = VarSet("v", value="old")
        e.set_value(v)
        return e, lambda e: e.get_value()
    if carrier == "UserFieldDecl()":
        return UserFieldDecl("u", value=v), lambda e: e.get_value()
    if carrier == "UserFieldDecl.set_value":
        e = UserFieldDecl("u", value=17)
        e.set_value(v)
        return e, lambda e: e.get_value()
    if carrier == "UserDefined()":
        return UserDefined("d", value=v), lambda e: e.get_value()
    if carrier == "UserDefined(from_document)":
        # the field takes its value from the metadata entry of that name; the value argument is only a fallback
        from odfdo import Document

        doc = _DOC.setdefault("doc", Document("text"))
        _DOC["n"] = _DOC.get("n", 0) + 1
        name = f"vf entry {_DOC['n']}"
        doc.meta.set_user_defined_metadata(name, v)
        return UserDefined(name, value="fallback", from_document=doc), lambda e: e.get_value()
    raise KeyError(carrier)


_DOC: dict = {}


def value_node(el):
    """The lxml node carrying the office:value-type attributes inside a stored element."""
    node = el._Element__element
    if node.get(OFFICE + "value-type") is not None:
        return node
    for d in node.iter():
        if d.get(OFFICE + "value-type") is not None:
            return d
    # empty value: the node itself / last cell
    cells = [d for d in node.iter() if isinstance(d.tag, str) and d.tag.endswith("table-cell")]
    return cells[-1] if cells else node


def _ser(v):
    from .c18 import _ser as s

    if isinstance(v, Decimal):
        return {"t": "Decimal", "f": str(v)}
    if isinstance(v, float):
        return {"t": "float", "f": repr(v)}
    return s(v)


def _deser(d):
    from .c18 import _deser as ds

    if d["t"] == "Decimal":
        return Decimal(d["f"])
    if d["t"] == "float":
        return float(d["f"])
    return ds(d)


def judge_one(res, carrier, v, tname, tag):
    from odfdo import Element

    case = {"carrier": carrier, "value": _ser(v), "type": tname}

    def report(path, what, detail):
        res.violation(f"{what}:{carrier}:{tname}:{path}", dict(detail, value=v, tag=tag), case)

    try:
        el, reader = store(carrier, v)
    except K.ContractBroken as e:
        report("store", "codec-contract:" + e.witness.get("contract", "?"), {"witness": e.witness})
        return
    except Exception as e:
        res.judge()
        res.cls((carrier, tname, tag, "store-raised"), True)
        report("store", f"store-raised:{type(e).__name__}", {"exc": repr(e)})
        return
    for path in ("direct", "reparse"):
        res.judge()
        res.cls((carrier, tname, tag, path), True)
        try:
            target = el if path == "direct" else Element.from_tag(el.serialize(with_ns=True))
            got = reader(target)
        except K.ContractBroken as e:
            report(path, "codec-contract:" + e.witness.get("contract", "?"), {"witness": e.witness})
            continue
        except Exception as e:
            report(path, f"read-raised:{type(e).__name__}", {"exc": repr(e)})
            continue
        ok, why = typed_equal(v, got)
        if not ok:
            report(path, "value", {"got": got, "got_type": type(got).__name__, "why": why})
    nt = "percentage" if "percentage" in carrier else "currency" if "currency" in carrier else "float"
    lv = v
    if carrier == "UserDefined(from_document)" and type(v) is dt.date:
        lv = dt.datetime(v.year, v.month, v.day)  # metadata hands a date back as a datetime at midnight: the field carries that
    issue = lexical_issue(lv, value_node(el).attrib, numeric_type=nt)
    if issue:
        report("xml", "lexical", {"issue": issue, "xml": el.serialize()[:300]})


def judge_documents(res, values, rng):
    """Save->reopen path: cells in a spreadsheet, variables in a text document, metadata."""
    from odfdo import Document, Table, UserFieldDecl, VarSet

    # spreadsheet
    doc = Document("spreadsheet")
    doc.body.clear()
    t = Table("vals")
    for i, (v, _tn, _tag) in enumerate(values):
        t.set_value((0, i), v)
    doc.body.append(t)
    buf = io.BytesIO()
    doc.save(buf)
    buf.seek(0)
    t2 = Document(buf).body.get_table(0)
    for i, (v, tn, tag) in enumerate(values):
        res.judge()
        res.cls(("Table.set_value", tn, tag, "reopen"), True)
        try:
            got = t2.get_value((0, i))
            ok, why = typed_equal(v, got)
        except Exception as e:
            ok, why, got = False, repr(e), None
        if not ok:
            res.violation(f"value:Table.set_value:{tn}:reopen", {"value": v, "got": got, "why": why, "tag": tag}, {"carrier": "doc-cell", "value": _ser(v), "type": tn})
    # text document with variables / user fields
    doc = Document("text")
    body = doc.body
    names = []
    for i, (v, tn, tag) in enumerate(values):
        if v is None:
            continue
        body.append(VarSet(f"var{i}", value=v))
        body.append(UserFieldDecl(f"uf{i}", value=v))
        names.append(i)
    # a variable is stored again further down the text, with a value of another type: "the last value of the given
    # variable name" is what a reader of the variable gets, the first storage stays readable by position
    again = {}
    for j, i in enumerate(names):
        if j % 2 == 0 and len(names) > 1:
            i2 = names[(j + 7) % len(names)]
            again[i] = values[i2]
            body.append(VarSet(f"var{i}", value=values[i2][0]))
    for where, b in (("direct", body), ("reopen", None)):
        if b is None:
            buf = io.BytesIO()
            doc.save(buf)
            buf.seek(0)
            b = Document(buf).body
        for i, (v2, tn2, tag2) in again.items():
            v1 = values[i][0]
            for route, fn, want in (
                ("get_variable_set_value", lambda: b.get_variable_set_value(f"var{i}"), v2),
                ("get_variable_set().get_value", lambda: b.get_variable_set(f"var{i}").get_value(), v2),
                ("get_variable_set(position=0).get_value", lambda: b.get_variable_set(f"var{i}", position=0).get_value(), v1),
            ):
                res.judge()
                res.cls(("VarSet-stored-twice", route, tn2, where), True)
                try:
                    got = fn()
                    ok, why = typed_equal(want, got)
                except Exception as e:
                    ok, why, got = False, repr(e), None
                if not ok:
                    res.violation(f"value:VarSet-stored-twice:{route}:{where}", {"first": v1, "second": v2, "expected": want, "got": got, "why": why}, {"carrier": "VarSet-twice", "value": _ser(v2), "type": tn2})
    buf = io.BytesIO()
    doc.save(buf)
    buf.seek(0)
    body2 = Document(buf).body
    for i in names:
        if i in again:
            continue
        v, tn, tag = values[i]
        for carrier, el in (("VarSet()", body2.get_variable_set(f"var{i}")), ("UserFieldDecl()", body2.get_user_field_decl(f"uf{i}"))):
            res.judge()
            res.cls((carrier, tn, tag, "reopen"), True)
            try:
                got = el.get_value()
                ok, why = typed_equal(v, got)
            except Exception as e:
                ok, why, got = False, repr(e), None
            if not ok:
                res.violation(f"value:{carrier}:{tn}:reopen", {"value": v, "got": got, "why": why, "tag": tag}, {"carrier": carrier, "value": _ser(v), "type": tn})
    # metadata: new entries, then overwrite each entry with the next value (another type)
    doc = Document("text")
    meta = doc.meta
    usable = [(v, tn, tag) for v, tn, tag in values if v is not None]
    for round_ in (0, 1):
        for i, (v, tn, tag) in enumerate(usable):
            name = f"k{i} é"
            if round_ == 1:
                v, tn, tag = usable[(i + 7) % len(usable)]
            case = {"carrier": "meta" if round_ == 0 else "meta-overwrite", "value": _ser(v), "type": tn}
            try:
                meta.set_user_defined_metadata(name, v)
            except K.ContractBroken as e:
                res.violation(f"codec-contract:{e.witness.get('contract')}:meta", {"witness": e.witness}, case)
                continue
            res.judge()
            res.cls(("Meta.user_defined" + ("-overwrite" if round_ else ""), tn, tag, "direct"), True)
            try:
                got = meta.get_user_defined_metadata()[name]
                ok, why = typed_equal(v, got, meta=True)
            except Exception as e:
                ok, why, got = False, repr(e), None
            if not ok:
                res.violation(f"value:Meta.user_defined{'-overwrite' if round_ else ''}:{tn}:direct", {"value": v, "got": got, "why": why, "tag": tag}, case)
            node = None
            for n in meta.root._Element__element.iter(METANS + "user-defined"):
                if n.get(METANS + "name") == name:
                    node = n
            if node is not None:
                issue = lexical_issue(v, node.attrib, prefix=METANS, text=node.text)
                if issue:
                    res.violation(f"lexical:Meta.user_defined:{tn}", {"value": v, "issue": issue, "tag": tag}, case)
        buf = io.BytesIO()
        doc.save(buf)
        buf.seek(0)
        md = Document(buf).meta.get_user_defined_metadata()
        for i, (v, tn, tag) in enumerate(usable):
            if round_ == 1:
                v, tn, tag = usable[(i + 7) % len(usable)]
            res.judge()
            res.cls(("Meta.user_defined" + ("-overwrite" if round_ else ""), tn, tag, "reopen"), True)
            try:
                got = md[f"k{i} é"]
                ok, why = typed_equal(v, got, meta=True)
            except Exception as e:
                ok, why, got = False, repr(e), None
            if not ok:
                res.violation(f"value:Meta.user_defined{'-overwrite' if round_ else ''}:{tn}:reopen", {"value": v, "got": got, "why": why, "tag": tag}, {"carrier": "meta", "value": _ser(v), "type": tn})


SEQ_WRITERS = ["Row.set_values", "Row.set_values(start)", "Table.set_values", "Table.set_row_values", "Table.set_column_values", "Table.append_row", "Row(values)->set_row"]

# Python-equal values of different types: neighbours must keep their own type
TWINS = [
    [True, 1, 1.0, Decimal(1), "1", "true", "True"],
    [False, 0, 0.0, Decimal(0), "0", "", None, "false"],
    [dt.date(2024, 1, 2), dt.datetime(2024, 1, 2), "2024-01-02"],
    [dt.timedelta(0), 0, False, "PT0S"],
    [Decimal("1.50"), 1.5, "1.5", Decimal("1.5")],
    [2, 2.0, Decimal("2.00"), "2"],
]


def gen_sequence(rng, values):
    """A row of 2..8 values where neighbours are often Python-equal but of different types."""
    seq = []
    n = rng.randint(2, 8)
    while len(seq) < n:
        r = rng.random()
        if r < 0.55:
            fam = rng.choice(TWINS)
            seq += [rng.choice(fam) for _ in range(rng.randint(2, 3))]
        elif r < 0.75 and seq:
            seq.append(seq[-1])  # a true repeat: equal value of the same type
        else:
            seq.append(rng.choice(values)[0])
    return seq[:n]


def write_sequence(writer, seq):
    """-> (element, readers) where readers: list of (name, fn(element) -> list of values)"""
    from odfdo import Row, Table

    n = len(seq)
    if writer == "Row.set_values":
        r = Row(n)
        r.set_values(seq)
        return r, [("get_values", lambda r: r.get_values()), ("get_value", lambda r: [r.get_value(i) for i in range(n)]), ("cells.value", lambda r: [c.value for c in r.get_cells()])]
    if writer == "Row.set_values(start)":
        r = Row(n + 1)
        r.set_values(seq, start=1)
        return r, [("get_values", lambda r: r.get_values()[1:]), ("get_value", lambda r: [r.get_value(i + 1) for i in range(n)])]
    if writer == "Table.set_values":
        t = Table("t")
        t.set_values([seq, list(reversed(seq))])
        return t, [("get_values", lambda t: t.get_values()[0]), ("get_row_values", lambda t: list(reversed(t.get_row_values(1)))), ("get_value", lambda t: [t.get_value((i, 0)) for i in range(n)])]
    if writer == "Table.set_row_values":
        t = Table("t", n, 2)
        t.set_row_values(1, seq)
        return t, [("get_row_values", lambda t: t.get_row_values(1)), ("get_value", lambda t: [t.get_value((i, 1)) for i in range(n)])]
    if writer == "Table.set_column_values":
        t = Table("t", 2, n)
        t.set_column_values(1, seq)
        return t, [("get_column_values", lambda t: t.get_column_values(1)), ("get_value", lambda t: [t.get_value((1, i)) for i in range(n)])]
    if writer == "Table.append_row":
        t = Table("t")
        t.append_row(Row(n))
        r = Row()
        r.set_values(seq)
        t.append_row(r)
        return t, [("get_row_values", lambda t: t.get_row_values(1)), ("get_values", lambda t: t.get_values()[1])]
    if writer == "Row(values)->set_row":
        t = Table("t", n, 1)
        r = Row(n)
        for i, v in enumerate(seq):
            r.set_value(i, v)
        t.set_row(0, r)
        return t, [("get_row_values", lambda t: t.get_row_values(0)), ("get_cells.value", lambda t: [c.value for c in t.get_row(0).get_cells()])]
    raise KeyError(writer)


def _tname(v):
    return "None" if v is None else type(v).__name__


def judge_sequence(res, writer, seq):
    from odfdo import Element

    case = {"carrier": "sequence", "writer": writer, "values": [_ser(v) for v in seq]}
    kinds = tuple(_tname(v) for v in seq)
    try:
        el, readers = write_sequence(writer, seq)
    except Exception as e:
        res.judge()
        res.violation(f"store-raised:{type(e).__name__}:{writer}", {"exc": repr(e), "values": seq}, case)
        return
    for path in ("direct", "reparse"):
        target = el if path == "direct" else Element.from_tag(el.serialize(with_ns=True))
        for rname, fn in readers:
            res.judge()
            res.cls(("sequence", writer, rname, path, kinds[:4]), True)
            try:
                got = list(fn(target))
            except Exception as e:
                res.violation(f"read-raised:{type(e).__name__}:{writer}:{rname}:{path}", {"exc": repr(e), "values": seq}, case)
                continue
            if len(got) != len(seq):
                res.violation(f"sequence-length:{writer}:{rname}:{path}", {"got": got, "values": seq}, case)
                continue
            for i, (v, g) in enumerate(zip(seq, got)):
                ok, why = typed_equal(v, g)
                if not ok:
                    res.violation(f"value-in-sequence:{writer}:{rname}:{_tname(v)}:{path}", {"index": i, "value": v, "got": g, "got_type": type(g).__name__, "why": why, "values": seq, "neighbours": seq[max(i - 1, 0) : i + 2]}, case)
                    break


def run(ctx, res):
    K.install()
    rng = ctx.rng("vals")
    values = lattice(rng, 700 if ctx.quick else 150000)
    mine = [x for i, x in enumerate(values) if ctx.mine(i)]
    for v, tn, tag in mine:
        for carrier in CELL_CARRIERS + VAR_CARRIERS:
            if v is None and carrier in VAR_CARRIERS:
                continue
            judge_one(res, carrier, v, tn, tag)
        if tn in ("int", "float", "Decimal"):
            for carrier in TYPED_CELL_CARRIERS:
                judge_one(res, carrier, v, tn, tag)
    # documents: every shard saves its own slice (chunks of 40 values)
    for k in range(0, len(mine), 40):
        judge_documents(res, mine[k : k + 40], rng)
    # values written side by side through the multi-value writers
    srng = ctx.rng("sequences")
    for i in range(1500 if ctx.quick else 400000):
        seq = gen_sequence(srng, values)
        if not ctx.mine(i):
            continue
        judge_sequence(res, SEQ_WRITERS[(i // ctx.nshards) % len(SEQ_WRITERS)], seq)
    res.sample({"value": "datetime(2024,1,2,3,4,5,1,tz=+05:30)", "carrier": "Meta.set_user_defined_metadata", "paths": ["direct", "reopen"]})
    res.sample({"value": "Decimal('1.50')", "carrier": "Cell.value=", "paths": ["direct", "reparse"]})
    res.counters.update({"contract:" + k: v for k, v in K.COUNT.items()})


def replay(case):
    from ..core import Res

    K.install()
    res = Res()
    v = _deser(case["value"])
    if case["carrier"] in TYPED_CELL_CARRIERS:
        judge_one(res, case["carrier"], v, case["type"], "replay")
    elif case["carrier"] == "sequence":
        judge_sequence(res, case["writer"], [_deser(d) for d in case["values"]])
    elif case["carrier"] in CELL_CARRIERS + VAR_CARRIERS:
        judge_one(res, case["carrier"], v, case["type"], "replay")
    else:
        import random

        judge_documents(res, [(v, case["type"], "replay"), ("other", "str", "x"), (5, "int", "x")], random.Random(0))
    return res.violations


MANIFEST = {
    "text": "Exploration by runtime monitoring: every value of per-type boundary lattices (plus random values) is stored through ten carriers and read back directly, after re-parsing the element and after a document save/reopen; an oracle fixed in a written table decides 'equal value of the corresponding type', an independent lexical checker (O-LEX) judges the attribute actually written, and the codec contracts of C18 are armed underneath. Held = every read-back equal and every attribute in its lexical space on the evaluations counted.",
    "note": "Trusted: the type-correspondence table in DESIGN C06 (date reads back as datetime at midnight, floats as int-or-Decimal), O-LEX, lxml. NaN/inf, sub-second timedeltas, zone offsets with seconds are outside the stated domain.",
    "technique": "runtime monitoring: read-back oracle over boundary lattices through every carrier and path + independent lexical checker of the written attributes + armed codec contracts",
}
