"""C07 - table XML stays structurally valid and repeat-consistent after every operation;
accepted table / named-range names are exactly the valid ones.

Monitor shape: invariant at quiescent points (independent lxml walk of the serialisation
after every public call) + acceptance oracle for names (independent predicate)."""

import itertools
import re

from .. import tablehist as TH
from .. import tablelab as TL

LEVEL = "exploration"
RULE = (
    "Part 1: the C01 histories (incl. rstrip/optimize_width/transpose and cache-warming reads); one "
    "evaluation = one step after which O-TABXML walked the serialised table: repeat attributes absent or "
    "[1-9][0-9]* >= 2, rows contain only (covered-)cells, columns precede rows, no row wider than the "
    "declared columns, a table with a row declares a column, height/width == sums of repeats. Class = C01 "
    "situation class. Part 2 (exhaustive up to length 3, flag names_exhaustive): every string over "
    "{a,space,',/,\\,*,?,:,[,],LF,e-acute} as Table(name), Table.name=, NamedRange(table_name=) and every "
    "string over {a,B,1,_,space,-,.,e-acute,$} as NamedRange(name=) / .name=: accepted iff the independent "
    "predicate accepts, and the stored name is valid and equals the stripped candidate. Class = (route, set "
    "of character classes in the candidate, accepted?)."
)
SHARDS = {"quick": 16, "thorough": 16}
TIMEOUT = {"quick": 300, "thorough": 7200}
MIN_EVALS = {"quick": 8000, "thorough": 150000}
CASES = {"quick": 300, "thorough": 36000}
STEPS = {"quick": 10, "thorough": 24}
EXHAUSTIVE = {"quick": False, "thorough": False}
ASSUMPTIONS = [
    "name rules: table name valid iff non-empty after strip, none of []*?:/\\ or LF, no leading/trailing apostrophe "
    "(LibreOffice rule as documented by odfdo); named range valid iff only alphanumerics and '_' and not of the "
    "cell-reference shape letters+digits (odfdo's documented rule)",
    "deleting the last declared column of a table that has rows is not generated",
]
REACH = [
    ("odfdo.row", "Row._set_repeated", True),
    ("odfdo.cell", "Cell._set_repeated", True),
    ("odfdo.table", "Column._set_repeated", True),
    ("odfdo.table", "Table._update_width", True),
    ("odfdo.table", "Table.append_row", True),
    ("odfdo.table", "_table_name_check", True),
    ("odfdo.table", "NamedRange.name", True),
]

T_ALPHA = ["a", " ", "'", "/", "\\", "*", "?", ":", "[", "]", "\n", "é"]
N_ALPHA = ["a", "B", "1", "_", " ", "-", ".", "é", "$"]
_FORBIDDEN_T = set("[]*?:/\\\n")


def table_name_valid(s):
    return bool(s) and s == s.strip() and not (_FORBIDDEN_T & set(s)) and not s.startswith("'") and not s.endswith("'")


def nr_name_valid(s):
    if not s or s != s.strip():
        return False
    for ch in s:
        if ch == "_":
            continue
        if ord(ch) < 128:
            if not (ch.isascii() and ch.isalnum()):
                return False
        elif ch in " \t\n":
            return False
    return not re.match(r"^[A-Za-z]+[0-9]+$", s)


def _charclass(s, forb):
    out = set()
    for ch in s:
        if ch in forb:
            out.add("forbidden")
        elif ch == "'":
            out.add("apos")
        elif ch.isspace():
            out.add("space")
        elif ord(ch) > 127:
            out.add("nonascii")
        elif ch.isdigit():
            out.add("digit")
        else:
            out.add("plain")
    pos = []
    if s[:1].isspace() or s[-1:].isspace():
        pos.append("edge-space")
    if s.strip()[:1] == "'" or s.strip()[-1:] == "'":
        pos.append("edge-apos")
    return "+".join(sorted(out) + pos)


def _try(fn):
    try:
        return True, fn()
    except (ValueError, TypeError) as e:
        return False, e


def _judge_name(res, route, cand, accepted, stored, valid_fn, forb):
    res.judge()
    res.cls(("name", route, _charclass(cand, forb), "acc" if accepted else "rej"), True)
    stripped = cand.strip()
    case = {"kind": "name", "route": route, "candidate": cand}
    if accepted:
        if not valid_fn(stripped):
            res.violation(f"name:{route}:accepted-invalid", {"candidate": cand, "stored": stored}, case)
        elif stored != stripped:
            res.violation(f"name:{route}:stored-differs", {"candidate": cand, "stored": stored}, case)
    else:
        if valid_fn(stripped):
            res.violation(f"name:{route}:rejected-valid", {"candidate": cand, "error": repr(stored)}, case)


def run_names(ctx, res, one=None):
    from odfdo import NamedRange, Table

    n = 0
    maxlen = 3
    cands_t = [""] + ["".join(p) for L in range(1, maxlen + 1) for p in itertools.product(T_ALPHA, repeat=L)]
    cands_n = [""] + ["".join(p) for L in range(1, maxlen + 1) for p in itertools.product(N_ALPHA, repeat=L)]
    rng = ctx.rng("names")
    for _ in range(150 if ctx.quick else 4000):
        cands_t.append("".join(rng.choice(T_ALPHA + ["b", "1", "."]) for _ in range(rng.randint(4, 12))))
        cands_n.append("".join(rng.choice(N_ALPHA + ["c", "9"]) for _ in range(rng.randint(4, 12))))
    for i, c in enumerate(cands_t):
        if not ctx.mine(i):
            continue
        ok, r = _try(lambda: Table(c).name)
        _judge_name(res, "Table()", c, ok, r, table_name_valid, _FORBIDDEN_T)

        def setter():
            t = Table("x")
            t.name = c
            return t.name

        ok, r = _try(setter)
        _judge_name(res, "Table.name=", c, ok, r, table_name_valid, _FORBIDDEN_T)
        # acceptance only: how the accepted name travels through the range address is C19's business
        ok, r = _try(lambda: NamedRange("nr", "A1", c) and c.strip())
        _judge_name(res, "NamedRange(table_name)", c, ok, r, table_name_valid, _FORBIDDEN_T)
        n += 1
    forb_n = set(" -.$")
    for i, c in enumerate(cands_n):
        if not ctx.mine(i):
            continue
        ok, r = _try(lambda: NamedRange(c, "A1", "t").name)
        _judge_name(res, "NamedRange(name)", c, ok, r, nr_name_valid, forb_n)

        def setter2():
            nr = NamedRange("nr", "A1", "t")
            nr.name = c
            return nr.name

        ok, r = _try(setter2)
        _judge_name(res, "NamedRange.name=", c, ok, r, nr_name_valid, forb_n)
        n += 1
    res.count("name_candidates", n)
    res.info["names_exhaustive"] = f"all strings up to length {maxlen} over both alphabets, plus random longer ones"


def _on_step(res):
    def on_step(i, t, g, op, info):
        res.judge()
        res.cls(info["cls"], info["nontrivial"])
        return TH.check_structure(t)

    return on_step


def run(ctx, res):
    run_names(ctx, res)
    for c in range(CASES[ctx.tier]):
        rng = ctx.rng(c)
        vals = TL.Vals()
        case = {"init": TH.gen_init(rng, vals)}
        steps = rng.randint(3, STEPS[ctx.tier])
        try:
            case, v = TH.run_case(case, _on_step(res), gen=(rng, vals, steps, 0.3))
        except ValueError as e:
            if "too big" in str(e):
                res.count("skipped_big")
                continue
            raise
        if c < 2:
            res.sample({"init": case["init"], "ops": [s["op"] for s in case["steps"]][:6]})
        if v:
            m, d = v[0]
            op = (d.get("op") or {}).get("op", "init") if isinstance(d, dict) else "?"
            res.violation(f"{m}@{op}", d, {"kind": "history", "case": case})
        res.count("histories")


def replay(case):
    from ..core import Ctx, Res

    if case.get("kind") == "name":
        from odfdo import NamedRange, Table

        res = Res()
        c = case["candidate"]
        route = case["route"]
        if route.startswith("NamedRange(name") or route == "NamedRange.name=":
            ok, r = _try(lambda: NamedRange(c, "A1", "t").name)
            _judge_name(res, route, c, ok, r, nr_name_valid, set(" -.$"))
        else:
            ok, r = _try(lambda: Table(c).name)
            _judge_name(res, route, c, ok, r, table_name_valid, _FORBIDDEN_T)
        return res.violations
    _c, v = TH.run_case(case["case"], lambda i, t, g, op, info: TH.check_structure(t), gen=None)
    return [{"mechanism": m, "detail": d} for m, d in (v or [])]


MANIFEST = {
    "text": "Exploration by runtime monitoring: an invariant monitor walks the serialised table with lxml after every public operation of generated histories and checks the structural rules; a second monitor submits every candidate name up to length 3 over alphabets rich in forbidden characters (plus random longer ones) to the real constructors/setters and compares acceptance and the stored name with an independent predicate. Held = no rule broken on the steps and candidates observed.",
    "note": "Trusted: the written-down name rules (DESIGN C07) as 'what office applications accept'; lxml; generator bounds as C01. Spans/covered cells are judged under C17.",
    "technique": "runtime monitoring: structural invariant checked on the produced XML at every quiescent point + acceptance oracle over an enumerated candidate space",
}
