"""C08 - table getters return correctly addressed, expanded, detached copies.

Monitor shape: invariant at a hook: after a getter returns (quiescent point) the returned
objects' coordinates/repeat are compared with the request and the model; then one returned
object is mutated and the digests of the table and of every other returned object must not
move."""

from .. import tablehist as TH
from .. import tablelab as TL

LEVEL = "exploration"
RULE = (
    "Tables reached by C01 histories; at ~60% of the steps one getter scenario per getter family is run: "
    "{get_cell, get_row, get_cells(area|None, flat), get_rows(area), traverse(start,end), rows, cells, "
    "get_column, get_columns(range), traverse_columns(start,end), columns, get_column_cells, Row.get_cell, "
    "Row.traverse(start,end), Row.cells, Row.get_cells(range)} with coordinates inside / in repeated runs / "
    "at range starts on the last item of a run / edge / beyond, tuple and string forms; checks: x/y stamped "
    "== requested logical coordinate, value == model, count == logical extent, no repeat attribute on "
    "expanding reads, the read itself leaves the table byte-identical, and after one of {set_value, .value=, "
    ".style=, clear, .repeated=n, append child, Row.set_cell, Row.append_cell, Row.set_value, Column.style, "
    "Column.repeated} on one returned object the table and all other returned objects are byte-identical. "
    "One evaluation = one getter scenario. Class = (getter, target in repeated run?, range start at last "
    "item of a run?, coordinate form/beyond, mutation)."
)
SHARDS = {"quick": 16, "thorough": 16}
TIMEOUT = {"quick": 300, "thorough": 7200}
MIN_EVALS = {"quick": 20000, "thorough": 400000}
CASES = {"quick": 90, "thorough": 10000}
STEPS = {"quick": 8, "thorough": 16}
ASSUMPTIONS = [
    "getters documented as returning copies: all of the above with default arguments (clone=False variants are documented live and excluded)",
    "single-item getters (get_cell, get_row, get_column, Row.get_cell) may keep the repeat attribute (keep_repeated=True is their documented default); only expanding reads must drop it",
]
REACH = [
    ("odfdo.table", "Table._yield_odf_rows", True),
    ("odfdo.table", "Table.traverse", True),
    ("odfdo.table", "Table.traverse_columns", True),
    ("odfdo.table", "Table.get_cell", True),
    ("odfdo.table", "Table.get_cells", True),
    ("odfdo.table", "Table.get_columns", True),
    ("odfdo.table", "Table.get_column_cells", True),
    ("odfdo.row", "Row.traverse", True),
    ("odfdo.row", "Row.clone", True),
    ("odfdo.cell", "Cell.clone", True),
    ("odfdo.table", "Column.clone", True),
    ("odfdo.element", "Element.clone", True),
]


def tdigest(t):
    return (t.serialize(), tuple(t.size))


def odigest(o):
    return (o.serialize(), getattr(o, "x", None), getattr(o, "y", None))


CELL_MUTS = ["set_value", "value=", "style=", "clear", "repeated=", "append-child"]
ROW_MUTS = ["set_value", "set_cell", "append_cell", "clear", "repeated=", "style=", "delete_cell"]
COL_MUTS = ["style=", "repeated=", "default_cell_style="]


def mutate(obj, kind, rng):
    from odfdo import Cell, Paragraph

    if kind == "cell":
        m = rng.choice(CELL_MUTS)
        if m == "set_value":
            obj.set_value("MUT")
        elif m == "value=":
            obj.value = 987654
        elif m == "style=":
            obj.style = "mutstyle"
        elif m == "clear":
            obj.clear()
            obj.set_attribute("table:style-name", "cleared")
        elif m == "repeated=":
            obj.repeated = 3
        else:
            obj.append(Paragraph("MUT"))
    elif kind == "row":
        m = rng.choice(ROW_MUTS)
        if m == "set_value":
            obj.set_value(0, "MUT")
        elif m == "set_cell":
            obj.set_cell(1, Cell("MUT", repeated=2))
        elif m == "append_cell":
            obj.append_cell(Cell("MUT"))
        elif m == "clear":
            obj.clear()
            obj.set_attribute("table:style-name", "cleared")
        elif m == "repeated=":
            obj.repeated = 3
        elif m == "delete_cell":
            obj.delete_cell(0)
            obj.append_cell(Cell("MUT2"))
        else:
            obj.style = "mutstyle"
    else:
        m = rng.choice(COL_MUTS)
        if m == "style=":
            obj.style = "mutstyle"
        elif m == "repeated=":
            obj.repeated = 5
        else:
            obj.default_cell_style = "mutdcs"
    return m


def _last_of_run(runs, pos):
    start = 0
    for r in runs:
        if start <= pos < start + r:
            return r > 1 and pos == start + r - 1
        start += r
    return False


def _in_run(runs, pos):
    start = 0
    for r in runs:
        if start <= pos < start + r:
            return r > 1
        start += r
    return False


def scenario(t, g, enc, rng, res, getter):
    """Run one getter scenario. -> list of (mechanism, detail)."""
    W, H = g.W, g.H
    out = []
    objs = []  # (obj, kind, expected x, expected y, expanding?)
    tags = []

    def pick_y(beyond=True):
        c = rng.random()
        inter = enc.interesting_rows()
        if inter and c < 0.5:
            return rng.choice(inter)
        if H and c < 0.85:
            return rng.randrange(H)
        return H + rng.randint(0, 2) if beyond else (rng.randrange(H) if H else 0)

    def pick_x(y=None, beyond=True, cols=False):
        c = rng.random()
        inter = enc.interesting_cols() if cols else (enc.interesting_cells(y) if y is not None and y < H else [])
        n = W
        if inter and c < 0.5:
            return rng.choice(inter)
        if n and c < 0.85:
            return rng.randrange(n)
        return n + rng.randint(0, 2) if beyond else (rng.randrange(n) if n else 0)

    before = tdigest(t)
    call = {"getter": getter}
    if getter == "get_cell":
        y = pick_y()
        x = pick_x(y)
        c = (x, y) if rng.random() < 0.6 else f"{TL.alpha(x)}{y + 1}"
        call["coord"] = c
        keep = rng.random() < 0.6
        call["keep_repeated"] = keep
        cell = t.get_cell(c) if keep else t.get_cell(c, keep_repeated=False)
        # keep_repeated=False is the documented expanding form of the single-cell read
        objs.append((cell, "cell", x, y, not keep))
        if not keep:
            tags += ["keep_repeated=False"]
        tags += ["beyond" if (y >= H or x >= W) else ("run" if y < H and _in_run(enc.cells_of(y), x) else "plain")]
    elif getter == "get_row":
        y = pick_y()
        call["y"] = y
        objs.append((t.get_row(y), "row", None, y, False))
        tags += ["beyond" if y >= H else ("run" if _in_run(enc.row_runs, y) else "plain")]
    elif getter in ("get_cells", "get_cells_flat"):
        if rng.random() < 0.2 or not (W and H):
            coord = None
            x, y, z, tt = 0, 0, W - 1, H - 1
        else:
            y = pick_y(False)
            x = pick_x(y, False)
            z = rng.randint(x, W + 1)
            tt = rng.randint(y, H + 1)
            coord = (x, y, z, tt) if rng.random() < 0.6 else f"{TL.alpha(x)}{y + 1}:{TL.alpha(z)}{tt + 1}"
            tags += ["start-last-of-run" if _last_of_run(enc.cells_of(y), x) and x > 0 else "", "rowrun" if _in_run(enc.row_runs, y) else ""]
        call["coord"] = coord
        flat = getter == "get_cells_flat"
        got = t.get_cells(coord, flat=flat) if coord is not None else t.get_cells(flat=flat)
        exp_rows = list(range(y, min(tt, H - 1) + 1))
        if flat:
            # flat list: rows concatenated; reconstruct expected coordinates
            k = 0
            for yy in exp_rows:
                xs = list(range(x, min(z, len(g.rows[yy]) - 1) + 1))
                for xx in xs:
                    if k < len(got):
                        objs.append((got[k], "cell", xx, yy, True))
                    k += 1
            if k != len(got):
                out.append(("count:get_cells(flat)", {"got": len(got), "expected": k, "call": call}))
        else:
            if len(got) != len(exp_rows):
                out.append(("count:get_cells-rows", {"got": len(got), "expected": len(exp_rows), "call": call}))
            for yy, rowcells in zip(exp_rows, got):
                xs = list(range(x, min(z, len(g.rows[yy]) - 1) + 1))
                if len(rowcells) != len(xs):
                    out.append(("count:get_cells-row", {"y": yy, "got": len(rowcells), "expected": len(xs), "call": call}))
                for xx, cobj in zip(xs, rowcells):
                    objs.append((cobj, "cell", xx, yy, True))
    elif getter in ("get_rows", "traverse", "rows"):
        if getter == "rows":
            got = t.rows
            y, tt = 0, H - 1
        elif getter == "traverse":
            y = pick_y(False)
            tt = rng.randint(y, H + 1)
            if rng.random() < 0.2:
                got = _drain(t.traverse(), "row", rng, out, getter, call, tags)
                y, tt = 0, H - 1
            else:
                got = _drain(t.traverse(start=y, end=tt), "row", rng, out, getter, call, tags)
            call.update(start=y, end=tt)
            tags += ["rowrun" if _in_run(enc.row_runs, y) else "", "start-last-of-run" if _last_of_run(enc.row_runs, y) else ""]
        else:
            y = pick_y(False)
            tt = rng.randint(y, H + 1)
            x = rng.randrange(W) if W else 0
            coord = (x, y, W, tt) if rng.random() < 0.6 else f"{TL.alpha(x)}{y + 1}:{TL.alpha(max(W, x))}{tt + 1}"
            call["coord"] = coord
            got = t.get_rows(coord) if H else []
            tags += ["rowrun" if _in_run(enc.row_runs, y) else ""]
        exp = list(range(y, min(tt, H - 1) + 1))
        if len(got) != len(exp):
            out.append((f"count:{getter}", {"got": len(got), "expected": len(exp), "call": call}))
        for yy, r in zip(exp, got):
            objs.append((r, "row", None, yy, True))
    elif getter == "cells":
        got = t.cells
        if len(got) != H:
            out.append(("count:cells", {"got": len(got), "expected": H}))
        for yy, rowcells in enumerate(got[:H]):
            if len(rowcells) != len(g.rows[yy]):
                out.append(("count:cells-row", {"y": yy, "got": len(rowcells), "expected": len(g.rows[yy])}))
            for xx, cobj in enumerate(rowcells[: len(g.rows[yy])]):
                objs.append((cobj, "cell", xx, yy, True))
    elif getter == "get_column":
        x = pick_x(cols=True)
        c = x if rng.random() < 0.7 else TL.alpha(x)
        if isinstance(c, int) and 0 <= x < W and rng.random() < 0.3:
            c = x - W  # the same column counted from the end
            tags += ["negative"]
        call["x"] = c
        objs.append((t.get_column(c), "column", x, None, False))
        tags += ["beyond" if x >= W else ("run" if _in_run(enc.cols, x) else "plain")]
    elif getter in ("get_columns", "traverse_columns", "columns"):
        if getter == "columns":
            got = t.columns
            x, z = 0, W - 1
        else:
            if not W:
                return out
            x = pick_x(cols=True, beyond=False)
            z = rng.randint(x, W + 1)
            tags += ["start-last-of-run" if _last_of_run(enc.cols, x) and x > 0 else "", "colrun" if _in_run(enc.cols, x) else ""]
            if getter == "traverse_columns":
                got = _drain(t.traverse_columns(start=x, end=z), "column", rng, out, getter, call, tags)
                call.update(start=x, end=z)
            else:
                # column range over all rows: "B:D" or a 4-tuple whose row part differs from the column part
                form = rng.random()
                if form < 0.3:
                    coord = f"{TL.alpha(x)}:{TL.alpha(z)}"
                elif form < 0.45:
                    # the short forms: a column range, a single column, also counted from the end
                    zz = min(z, W - 1)
                    coord = rng.choice([(x, zz), [x, zz], (x - W, zz - W) if x else (x, zz)])
                    z = zz
                elif form < 0.5:
                    coord = rng.choice([(x,), [x]])
                    z = x
                elif form < 0.7:
                    coord = (x, 0, z, max(H - 1, 0) + rng.randint(0, 3))
                else:
                    coord = f"{TL.alpha(x)}1:{TL.alpha(z)}{max(H, 1) + rng.randint(0, 3)}"
                call["coord"] = coord
                got = t.get_columns(coord)
        exp = list(range(x, min(z, W - 1) + 1))
        if len(got) != len(exp):
            out.append((f"count:{getter}", {"got": len(got), "expected": len(exp), "call": call}))
        for xx, c in zip(exp, got):
            objs.append((c, "column", xx, None, True))
    elif getter == "get_column_cells":
        x = pick_x(cols=True)
        xa = x
        if 0 <= x < W and rng.random() < 0.35:
            xa = x - W  # counted from the end of the TABLE, whatever the width of each stored row
            tags += ["negative"]
        call["x"] = xa
        got = t.get_column_cells(xa)
        if len(got) != H:
            out.append(("count:get_column_cells", {"got": len(got), "expected": H, "call": call}))
        for yy, c in enumerate(got[:H]):
            if c is not None:
                # one cell per (expanded) row; the cell itself is a single-item read like get_cell
                objs.append((c, "cell", x, yy, False))
        tags += ["beyond" if x >= W else ""]
    elif getter.startswith("Row."):
        if not H:
            return out
        y = pick_y(False)
        row = t.get_row(y)
        rowlen = len(g.rows[y])
        sub = getter[4:]
        call["y"] = y
        tags += ["rowrun" if _in_run(enc.row_runs, y) else ""]
        if sub == "get_cell":
            x = pick_x(y)
            call["x"] = x
            c = row.get_cell(x)
            if c is not None:
                objs.append((c, "cell", x, y, False))
            tags += ["beyond" if x >= rowlen else ("run" if _in_run(enc.cells_of(y), x) else "plain")]
        elif sub == "cells":
            got = row.cells
            if len(got) != rowlen:
                out.append(("count:Row.cells", {"got": len(got), "expected": rowlen, "call": call}))
            for xx, c in enumerate(got[:rowlen]):
                objs.append((c, "cell", xx, y, True))
        else:
            if not rowlen:
                return out
            x = pick_x(y, False) % rowlen
            z = rng.randint(x, rowlen + 1)
            call.update(start=x, end=z)
            tags += ["start-last-of-run" if _last_of_run(enc.cells_of(y), x) and x > 0 else ""]
            if sub == "traverse":
                got = _drain(row.traverse(start=x, end=z), "cell", rng, out, getter, call, tags)
            else:
                coord = (x, z) if rng.random() < 0.6 else f"{TL.alpha(x)}:{TL.alpha(z)}"
                call["coord"] = coord
                got = row.get_cells(coord)
            exp = list(range(x, min(z, rowlen - 1) + 1))
            if len(got) != len(exp):
                out.append((f"count:{getter}", {"got": len(got), "expected": len(exp), "call": call}))
            for xx, c in zip(exp, got):
                objs.append((c, "cell", xx, y, True))
        # the row itself is a copy too: keep it among the returned objects
        objs.append((row, "row", None, y, False))
    else:
        raise KeyError(getter)

    # (d) the read itself changes nothing
    after_read = tdigest(t)
    if after_read != before:
        out.append((f"read-changed-table:{getter}", {"call": call, "size_before": before[1], "size_after": after_read[1]}))
    # (a) address and value, (b) expansion
    for o, kind, ex, ey, expanding in objs:
        if kind == "cell":
            if (o.x, o.y) != (ex, ey):
                out.append((f"address:{getter}", {"got": [o.x, o.y], "expected": [ex, ey], "call": call}))
            if not TL.values_equal(o.value, g.value(ex, ey)):
                out.append((f"value:{getter}", {"at": [ex, ey], "got": o.value, "expected": g.value(ex, ey), "call": call}))
        elif kind == "row":
            if o.y != ey:
                out.append((f"address:{getter}", {"got_y": o.y, "expected_y": ey, "call": call}))
            exp = g.rows[ey] if ey < H else []
            if not TL.list_equal(TL.strip_none(o.get_values()), TL.strip_none(exp)):
                out.append((f"value:{getter}", {"y": ey, "got": o.get_values(), "expected": exp, "call": call}))
        else:
            if o.x != ex:
                out.append((f"address:{getter}", {"got_x": o.x, "expected_x": ex, "call": call}))
        if expanding and o.repeated is not None:
            out.append((f"repeat-kept-on-expanded-read:{getter}", {"repeated": o.repeated, "at": [ex, ey], "call": call}))
    # (c) detachment
    mut = "-"
    if objs and not out:
        k = rng.randrange(len(objs))
        others = [odigest(o) for i, (o, *_r) in enumerate(objs) if i != k]
        target, kind = objs[k][0], objs[k][1]
        try:
            mut = mutate(target, kind, rng)
        except Exception as e:
            out.append((f"mutation-raised:{getter}:{kind}", {"exc": repr(e), "call": call}))
        after = tdigest(t)
        if after != before:
            out.append((f"not-detached:table-changed:{getter}", {"mutation": mut, "kind": kind, "at": [objs[k][2], objs[k][3]], "call": call, "size_after": after[1]}))
        others2 = [odigest(o) for i, (o, *_r) in enumerate(objs) if i != k]
        if others != others2:
            out.append((f"not-detached:sibling-changed:{getter}", {"mutation": mut, "kind": kind, "call": call}))
    res.judge()
    res.cls((getter, "+".join(sorted(x for x in tags if x)) or "plain", mut), True)
    for m, d in out:
        d["call"] = call
    return out


def _drain(it, kind, rng, out, getter, call, tags):
    """Consume a generator of copies. Half of the time the way a caller editing on the fly does: each copy is edited
    before the next one is asked for. What was handed out is kept as it was at that moment (a clone with the same
    stamps); a copy that already carries the edit made to the copy before it is not a copy of the table."""
    if rng.random() < 0.5:
        return list(it)
    tags.append("edited-while-iterating")
    got = []
    for o in it:
        if "vf-mut" in o.serialize():
            out.append((f"copy-inherits-the-edit-of-the-copy-before:{getter}", {"n": len(got), "xml": o.serialize()[:200], "call": call}))
        keep = o.clone
        if hasattr(o, "x"):
            keep.x = o.x
        if hasattr(o, "y"):
            keep.y = o.y
        got.append(keep)
        try:
            if kind == "cell":
                o.set_value("vf-mut")
            elif kind == "row":
                o.set_value(0, "vf-mut")
            else:
                o.style = "vf-mut"
        except Exception as e:
            out.append((f"mutation-raised:{getter}:{kind}", {"exc": repr(e), "call": call}))
    return got


GETTERS = [
    "get_cell", "get_row", "get_cells", "get_cells_flat", "get_rows", "traverse", "rows", "cells", "get_column",
    "get_columns", "traverse_columns", "columns", "get_column_cells", "Row.get_cell", "Row.traverse", "Row.cells", "Row.get_cells",
]


def _on_step(res, rng, script=None):
    def on_step(i, t, g, op, info):
        if script is not None:
            todo = script.get(str(i), [])
        else:
            todo = rng.sample(GETTERS, 6) if rng.random() < 0.6 else []
        enc = TL.Encoding(t)
        for getter in todo:
            sub = rng if script is None else __import__("random").Random(f"{i}/{getter}")
            v = scenario(t, g, enc, sub, res, getter)
            if v:
                for m, d in v:
                    d["getter_step"] = i
                return v
        return None

    return on_step


def empty_containers(res):
    """Reads of empty tables and rows, in every position form (also negative plain ints): an empty cell / row /
    column or an empty list comes back, nothing is raised, nothing grows."""
    from odfdo import Cell, Column, Row, Table

    def tables():
        t1 = Table("deleted", 2, 2)
        t1.delete_row(0)
        t1.delete_row(0)
        t2 = Table("cleared", 3, 2)
        t2.clear()
        t3 = Table("one-empty-row")
        t3.append_row(Row())
        return {"Table()": Table("e"), "all-rows-deleted": t1, "cleared": t2, "row-without-cells": t3}

    positions = [0, 1, -1, -2, 5]
    for tname, t in tables().items():
        calls = {}
        for p_ in positions:
            calls[f"get_row({p_})"] = (lambda p_=p_: t.get_row(p_), Row)
            calls[f"get_column({p_})"] = (lambda p_=p_: t.get_column(p_), Column)
            calls[f"get_column_cells({p_})"] = (lambda p_=p_: t.get_column_cells(p_), list)
            calls[f"get_column_values({p_})"] = (lambda p_=p_: t.get_column_values(p_), list)
            calls[f"get_row_values({p_})"] = (lambda p_=p_: t.get_row_values(p_), list)
            calls[f"get_cell(({p_},{p_}))"] = (lambda p_=p_: t.get_cell((p_, p_)), Cell)
            calls[f"get_value(({p_},{p_}))"] = (lambda p_=p_: t.get_value((p_, p_)), type(None))
            calls[f"get_row({p_}).get_cell({p_})"] = (lambda p_=p_: t.get_row(p_).get_cell(p_), Cell)
        calls["get_cell('A1')"] = (lambda: t.get_cell("A1"), Cell)
        calls["get_cells()"] = (lambda: t.get_cells(), list)
        calls["get_rows()"] = (lambda: t.get_rows(), list)
        calls["get_values()"] = (lambda: t.get_values(), list)
        calls["traverse"] = (lambda: list(t.traverse()), list)
        calls["get_cells((0,0,2,2))"] = (lambda: t.get_cells((0, 0, 2, 2)), list)
        before = t.serialize()
        size = tuple(t.size)
        for cname, (fn, typ) in calls.items():
            res.judge()
            res.cls(("empty-container", tname, cname.split("(")[0], "negative" if "-" in cname else "non-negative"), True)
            case = {"empty": tname, "call": cname}
            try:
                r = fn()
            except Exception as e:
                res.violation(f"empty:{cname.split('(')[0]}:raised:{type(e).__name__}", {"table": tname, "call": cname, "exc": repr(e)}, case)
                continue
            if not isinstance(r, typ):
                res.violation(f"empty:{cname.split('(')[0]}:wrong-kind", {"table": tname, "call": cname, "got": type(r).__name__}, case)
            if t.serialize() != before or tuple(t.size) != size:
                res.violation(f"empty:{cname.split('(')[0]}:table-changed", {"table": tname, "call": cname}, case)
                before = t.serialize()
    for rname, r in {"Row()": Row(), "Row(0)": Row(0)}.items():
        before = r.serialize()
        for p_ in positions:
            for cname, fn, typ in ((f"Row.get_cell({p_})", lambda p_=p_: r.get_cell(p_), Cell), (f"Row.get_value({p_})", lambda p_=p_: r.get_value(p_), type(None))):
                res.judge()
                res.cls(("empty-container", rname, cname.split("(")[0], "negative" if "-" in cname else "non-negative"), True)
                case = {"empty": rname, "call": cname}
                try:
                    x = fn()
                    if not isinstance(x, typ):
                        res.violation(f"empty:{cname.split('(')[0]}:wrong-kind", {"row": rname, "call": cname, "got": type(x).__name__}, case)
                except Exception as e:
                    res.violation(f"empty:{cname.split('(')[0]}:raised:{type(e).__name__}", {"row": rname, "call": cname, "exc": repr(e)}, case)
                if r.serialize() != before:
                    res.violation(f"empty:{cname.split('(')[0]}:row-changed", {"row": rname, "call": cname}, case)
                    before = r.serialize()


def grouped_columns_case(layout, res=None):
    """Column declarations the way LibreOffice writes them for a sheet with columns to repeat or for the data table
    of a chart: inside table:table-header-columns / table:table-columns groups, with repeats. Every column read
    (single, ranges in every form, generators, from the end) is addressed over *all* the declarations in document
    order. layout = [[container, [[style, repeat]...]]...], container in {"header", "group", "direct"}"""
    from odfdo import Element

    T = 'xmlns:table="urn:oasis:names:tc:opendocument:xmlns:table:1.0"'
    xml = [f'<table:table {T} table:name="G">']
    styles = []
    for cont, cols in layout:
        tag = {"header": "table:table-header-columns", "group": "table:table-columns", "direct": None}[cont]
        if tag:
            xml.append(f"<{tag}>")
        for st, rep in cols:
            xml.append(f'<table:table-column table:style-name="{st}"' + (f' table:number-columns-repeated="{rep}"' if rep > 1 else "") + "/>")
            styles += [st] * rep
        if tag:
            xml.append(f"</{tag}>")
    n = len(styles)
    xml.append(f'<table:table-row><table:table-cell table:number-columns-repeated="{n}"/></table:table-row></table:table>')
    t = Element.from_tag("".join(xml))
    out = []
    before = t.serialize()

    def jud(route, got, exp):
        if res is not None:
            res.judge()
            res.cls(("grouped-columns", route, "+".join(c for c, _ in layout)), True)
        if got != exp:
            out.append((f"grouped-columns:{route}", {"got": got, "expected": exp, "layout": layout}))

    try:
        jud("width", t.width, n)
        jud("get_columns", [(c.x, c.style) for c in t.get_columns()], list(enumerate(styles)))
        jud("columns", [(c.x, c.style) for c in t.columns], list(enumerate(styles)))
        jud("traverse_columns", [(c.x, c.style, c.repeated) for c in t.traverse_columns()], [(i, s_, None) for i, s_ in enumerate(styles)])
        for x in range(n):
            c = t.get_column(x)
            jud("get_column", (c.x, c.style), (x, styles[x]))
            c = t.get_column(x - n)
            jud("get_column(negative)", (c.x, c.style), (x, styles[x]))
        for a in range(n):
            for b in (a, min(a + 2, n - 1), n - 1):
                exp = [(i, styles[i]) for i in range(a, b + 1)]
                jud("traverse_columns(start,end)", [(c.x, c.style) for c in t.traverse_columns(a, b)], exp)
                jud("get_columns(tuple)", [(c.x, c.style) for c in t.get_columns((a, b))], exp)
                jud("get_columns(str)", [(c.x, c.style) for c in t.get_columns(f"{TL.alpha(a)}:{TL.alpha(b)}")], exp)
    except Exception as e:
        out.append((f"grouped-columns:raised:{type(e).__name__}", {"exc": repr(e), "layout": layout}))
    if t.serialize() != before:
        out.append(("grouped-columns:read-changed-table", {"layout": layout}))
    return out


def gen_grouped(rng):
    layout = []
    k = 0
    for cont in rng.choice([["header", "direct"], ["header", "group"], ["group", "direct"], ["header", "group", "direct"], ["direct", "header", "direct"], ["header"], ["group", "group"]]):
        cols = []
        for _ in range(rng.randint(1, 3)):
            cols.append([f"co{k}", rng.choice([1, 1, 2, 3])])
            k += 1
        layout.append([cont, cols])
    return layout


def run(ctx, res):
    if ctx.shard == 0:
        empty_containers(res)
    if ctx.shard == 1 % ctx.nshards:
        rng = ctx.rng("grouped")
        for _ in range(25 if ctx.quick else 600):
            layout = gen_grouped(rng)
            for m, d in grouped_columns_case(layout, res)[:1]:
                res.violation(m, d, {"grouped": layout})
    for c in range(CASES[ctx.tier]):
        rng = ctx.rng(c)
        vals = TL.Vals()
        case = {"init": TH.gen_init(rng, vals)}
        steps = rng.randint(2, STEPS[ctx.tier])
        # scenarios use their own deterministic stream per (step, getter) so a replay needs no generator
        script = {}
        plan_rng = ctx.rng(c, "plan")
        for i in range(-1, steps):
            if plan_rng.random() < 0.6:
                script[str(i)] = plan_rng.sample(GETTERS, 6)
        try:
            case, v = TH.run_case(case, _on_step(res, rng, script), gen=(rng, vals, steps, 0.3))
        except ValueError as e:
            if "too big" in str(e):
                res.count("skipped_big")
                continue
            raise
        case["script"] = script
        if c < 2:
            res.sample({"init": case["init"], "ops": [s["op"] for s in case["steps"]][:4], "getters": script})
        if v:
            m, d = v[0]
            if m.split(":")[0] in ("exception", "missing-exception", "law", "warm-read-raised"):
                res.count("history-broken-elsewhere")  # C01's business
                continue
            res.violation(m, d, {"case": case})
        res.count("histories")


def replay(case):
    if "empty" in case:
        from ..core import Res

        r = Res()
        empty_containers(r)
        return [v for v in r.violations if v["case"] == case]
    if "grouped" in case:
        return [{"mechanism": m, "detail": d} for m, d in grouped_columns_case(case["grouped"])]
    import random

    c = case["case"]
    _c, v = TH.run_case(c, _on_step(__import__("vf.core", fromlist=["Res"]).Res(), random.Random(0), c.get("script", {})), gen=None)
    return [{"mechanism": m, "detail": d} for m, d in (v or [])]


MANIFEST = {
    "text": "Exploration by runtime monitoring: on tables reached by generated histories every getter family is called with coordinates aimed at repeated runs, range starts on the last item of a run, edges and beyond; the monitor compares the stamped coordinates, values and counts with the model, requires expanded reads to carry no repeat attribute and the read to leave the table byte-identical, then mutates one returned object and requires the table and every other returned object to stay byte-identical. Reads of empty tables and rows in every position form (also negative plain ints) must return empty objects without raising or growing anything. Held = no scenario violated on those observed. Also: generators of copies drained while each yielded copy is edited before the next is asked for; column declarations inside header / column groups.",
    "note": "Trusted: O-GRID for the expected coordinates/values; 'documented as a copy' is read from the docstrings (default arguments). Single-item getters may keep a repeat attribute (documented keep_repeated default).",
    "technique": "runtime monitoring: post-condition monitor on getter results + before/after digests around mutations of returned objects",
}
