"""C12 - every element class round-trips through XML and comes back as the same class.

Monitor shape: (1) construction oracle: for every class registered at run time, instances are
built with generated constructor arguments; every argument that has a same-named property must
be exposed by it, before and after re-parsing; the serialisation must parse and come back as
the same class with an equal infoset.  (2) dispatch monitor over the corpus: every lxml node
whose tag is registered must be wrapped in its registered class through every access path,
and must round-trip."""

import copy
import datetime as dt
import inspect
import itertools

from lxml import etree

from .. import doclab as DL

LEVEL = "exploration"
RULE = (
    "Part 1: the class registry is enumerated at run time (110 tags / 89 classes today); for each class, "
    "constructor calls with each single same-named-property argument alone, all of them together and random "
    "subsets; values by annotation (str: plain / non-ASCII / XML-special; bool: True and False; int; datetime; "
    "timedelta; tuples for position/size) or from an enumeration table for closed domains (anchor_type, "
    "note_class, display, select_page, value_type, family ...); judged: the argument is readable through its "
    "property (not dropped, not altered), serialize(with_ns) parses, from_tag of both serialisations gives "
    "the same class, a C14N-equal tree and equal property values. Part 2: in every template and sample, for "
    "every registered tag present, up to 4 nodes per document are reached through from_tag, parent.children, "
    "get_elements, xpath, get_element, parent-of-child, clone and root descent: always the registered class; "
    "each sampled node round-trips through serialize/from_tag C14N-equal. One evaluation = one constructor "
    "call or one (node, access path). Class = (class name, parameter subset / access path, value kind, outcome)."
)
SHARDS = {"quick": 16, "thorough": 16}
TIMEOUT = {"quick": 400, "thorough": 3600}
MIN_EVALS = {"quick": 8000, "thorough": 100000}
ASSUMPTIONS = [
    "an argument is 'exposed' when the same-named property returns it, its str(), or the bool it stands for; arguments documented as transformed (positions/sizes/colours/values/text content) are observed through the written attribute instead or skipped (listed in TRANSFORMED)",
    "closed domains come from the enumeration table ENUMS (ODF attribute value lists)",
]
REACH = [
    ("odfdo.element", "register_element_class", False),
    ("odfdo.element", "Element.from_tag", True),
    ("odfdo.element", "Element.from_tag_for_clone", True),
    ("odfdo.element", "Element.make_etree_element", True),
    ("odfdo.element", "Element.serialize", True),
    ("odfdo.element", "Element.clone", True),
    ("odfdo.element", "Element._generic_attrib_getter", False),
]

ENUMS = {
    "anchor_type": ["page", "frame", "paragraph", "char", "as-char"],
    "note_class": ["footnote", "endnote"],
    "select_page": ["previous", "current", "next"],
    "value_type": ["string", "float"],
    "family": ["paragraph", "text", "table-cell"],
    "show": ["embed", "replace", "new"],
    "actuate": ["onLoad", "onRequest"],
    "presentation_class": ["title", "outline", "graphic"],
    "usage": ["print-range", "filter"],
    "xlink_type": ["simple"],
    "repeat": ["no-repeat", "repeat", "stretch"],
    "position": None,
}
CLASS_ENUMS = {
    ("VarChapter", "display"): ["name", "number", "number-and-name", "plain-number", "plain-number-and-name"],
    ("VarFileName", "display"): ["full", "path", "name", "name-and-extension"],
    ("BackgroundImage", "position"): ["center", "top left", "bottom right"],
    ("Tab", "position"): [0, 3],
    ("VarChapter", "outline_level"): ["1", "3"],
    ("TocEntryTemplate", "outline_level"): [1, 4],
    ("TOC", "outline_level"): [0, 3],
    ("Header", "level"): [1, 2, 10],
    ("Spacer", "number"): [2, 7],
}
NCNAME = ["id1", "é_id-2.x"]
# parameters whose value is transformed or is content, not an attribute echoed by a same-named property
TRANSFORMED = {"text", "text_or_element", "body", "value", "size", "position", "p1", "p2", "connected_shapes", "glue_points", "color", "background_color", "crange", "width", "height", "list_content", "annotation", "parent", "from_document", "citation", "formatted", "area", "italic", "bold", "title_text", "title_text_style", "title", "title_style", "entry_style", "cell_type", "currency", "formula", "protection_key", "print_ranges", "printable"}
SKIP_CLASSES = {"Cell", "NamedRange", "ParagraphBase", "Style"}  # judged by C06 / C19 / not a real tag / C13


def registry():
    from odfdo.element import _class_registry

    classes = {}
    for tag, cls in _class_registry.items():
        classes.setdefault(cls, []).append(tag)
    return _class_registry, classes


def ctor_params(cls):
    try:
        sig = inspect.signature(cls.__init__)
    except (TypeError, ValueError):
        return []
    out = []
    props = {pd.name for pd in getattr(cls, "_properties", ())}
    for p in list(sig.parameters.values())[1:]:
        if p.kind in (p.VAR_KEYWORD, p.VAR_POSITIONAL) or p.name in ("tag_or_elem", "tag"):
            continue
        has_prop = p.name in props or isinstance(inspect.getattr_static(cls, p.name, None), property)
        out.append((p.name, str(p.annotation), p.default, has_prop))
    return out


def values_for(cls, name, ann, rng):
    key = (cls.__name__, name)
    if name == "xml_id":
        return [(v, "ncname") for v in NCNAME]
    if name == "ref_format":
        return [(v, "enum") for v in sorted(getattr(cls, "format_allowed", ["page", "text"]))[:6]]
    if key == ("VarSet", "display"):
        return []
    if key in CLASS_ENUMS:
        return [(v, "enum") for v in CLASS_ENUMS[key]]
    if name in ENUMS and ENUMS[name]:
        return [(v, "enum") for v in ENUMS[name]]
    if "bool" in ann and "str" not in ann:
        return [(True, "true"), (False, "false")]
    if ann.startswith("int"):
        return [(2, "int"), (7, "int")]
    if "datetime" in ann:
        return [(dt.datetime(2024, 2, 29, 13, 14, 15), "datetime")]
    if "timedelta" in ann:
        return [(dt.timedelta(hours=1, minutes=2, seconds=3), "timedelta")]
    if "str" in ann:
        return [(f"v_{name}", "plain"), (f"é {name} 日", "nonascii"), (f"a&b<{name}>\"q'", "xmlspecial")]
    return []


def exposed(given, got):
    if got is None:
        return False, "dropped"
    if isinstance(given, bool):
        if isinstance(got, bool):
            return got == given, "bool-differs"
        return str(got).lower() == str(given).lower(), "bool-differs"
    if got == given or str(got) == str(given):
        return True, ""
    if isinstance(given, dt.datetime) and isinstance(got, (dt.datetime, str)):
        return (got == given) if isinstance(got, dt.datetime) else given.isoformat().startswith(str(got)[:19]), "datetime-differs"
    if isinstance(given, dt.timedelta):
        return got == given or "PT" in str(got), "timedelta-differs"
    return False, "altered"


def c14n(n):
    # exclusive: namespace declarations in scope but not used are not part of the comparison
    c = copy.deepcopy(n)
    c.tail = None
    return etree.tostring(c, method="c14n", exclusive=True)


def judge_instance(res, cls, kwargs, vkind, which, defaults=None):
    """Build one instance and judge it. -> list of (mechanism, detail)"""
    from odfdo import Element

    out = []
    name = cls.__name__
    case = {"kind": "ctor", "class": name, "kwargs": {k: repr(v) for k, v in kwargs.items()}}
    outcome = "ok"
    try:
        extra = {}
        if name == "Table":
            extra["name"] = "T"
        if name == "Style":
            extra["family"] = "paragraph"
        e = cls(**{**extra, **kwargs})
    except (ValueError, TypeError) as ex:
        res.cls((name, which, vkind, "refused"), True)
        res.count("ctor_refused")
        return out
    except Exception as ex:
        res.judge()
        res.cls((name, which, vkind, "raised"), True)
        res.violation(f"ctor-raised:{name}:{type(ex).__name__}", {"kwargs": case["kwargs"], "exc": repr(ex)}, case)
        return out
    res.judge()
    before = {}
    for k, v in kwargs.items():
        if k in TRANSFORMED:
            continue
        try:
            got = getattr(e, k)
        except Exception as ex:
            out.append((f"property-raised:{name}.{k}", {"exc": repr(ex)}))
            continue
        before[k] = got
        is_default = v is False or v is None or v == "" or (defaults is not None and k in defaults and defaults[k] == v)
        if is_default:
            continue
        ok, why = exposed(v, got)
        if not ok:
            out.append((f"argument-{why}:{name}.{k}", {"given": repr(v), "property": repr(got), "xml": e.serialize()[:300]}))
    # serialisation and round trip
    try:
        xml_ns = e.serialize(with_ns=True)
        n2 = etree.fromstring(xml_ns.encode())
        if n2.tag != e._Element__element.tag:
            out.append((f"serialize:root-tag-differs:{name}", {}))
        for label, xml in (("with_ns", xml_ns), ("stripped", e.serialize())):
            back = Element.from_tag(xml)
            if type(back) is not type(e):
                out.append((f"roundtrip:class-differs:{name}:{label}", {"got": type(back).__name__}))
                continue
            if c14n(back._Element__element) != c14n(e._Element__element):
                out.append((f"roundtrip:infoset-differs:{name}:{label}", {"before": xml[:300], "after": back.serialize()[:300]}))
            for k, v0 in before.items():
                try:
                    v1 = getattr(back, k)
                except Exception as ex:
                    out.append((f"roundtrip:property-raised:{name}.{k}", {"exc": repr(ex)}))
                    continue
                if v1 != v0 and str(v1) != str(v0):
                    out.append((f"roundtrip:property-differs:{name}.{k}", {"before": repr(v0), "after": repr(v1)}))
        cl = e.clone
        if type(cl) is not type(e) or c14n(cl._Element__element) != c14n(e._Element__element):
            out.append((f"clone:differs:{name}", {}))
        else:
            # the detached clone answers for itself (clones made earlier in the process are other objects)
            for k, v0 in before.items():
                try:
                    v1 = getattr(cl, k)
                except Exception as ex:
                    out.append((f"clone:property-raised:{name}.{k}", {"exc": repr(ex)}))
                    continue
                if v1 != v0 and str(v1) != str(v0):
                    out.append((f"clone:property-differs:{name}.{k}", {"original": repr(v0), "clone": repr(v1)}))
    except Exception as ex:
        import traceback

        out.append((f"roundtrip-raised:{name}:{type(ex).__name__}", {"exc": repr(ex), "tb": traceback.format_exc()[-500:]}))
    if out:
        outcome = out[0][0].split(":")[0]
    res.cls((name, which, vkind, outcome), True)
    for m, d in out:
        res.violation(m, dict(d, kwargs=case["kwargs"]), case)
    return out


def part_ctor(ctx, res):
    reg, classes = registry()
    res.info["registry"] = {"tags": len(reg), "classes": len(classes)}
    rng = ctx.rng("ctor")
    i = 0
    covered = {}
    for cls in sorted(classes, key=lambda c: c.__name__):
        if cls.__name__ in SKIP_CLASSES:
            continue
        params = ctor_params(cls)
        i += 1
        if not ctx.mine(i):
            continue
        judge_instance(res, cls, {}, "-", "no-args")
        observable = [(n, a, d) for n, a, d, hp in params if hp and n not in TRANSFORMED]
        defaults = {n: d for n, a, d, hp in params}
        covered[cls.__name__] = [n for n, _a, _d in observable]
        # each argument alone, every value
        allvals = {}
        for n, a, d in observable:
            vals = values_for(cls, n, a, rng)
            allvals[n] = vals
            for v, kind in vals:
                judge_instance(res, cls, {n: v}, kind, f"only:{n}", defaults)
        # all together, and random subsets
        if len(observable) > 1:
            for rep in range(3 if ctx.quick else 80):
                kw = {}
                for n, a, d in observable:
                    if allvals[n] and (rep == 0 or rng.random() < 0.6):
                        kw[n] = rng.choice(allvals[n])[0]
                judge_instance(res, cls, kw, "mixed", "all" if rep == 0 else f"subset{len(kw)}", defaults)
        # content given as a ready-made element (the alternative type of text_or_element / body) together with
        # the other arguments: nothing of them may be lost, the content must be readable
        for n, a, d, hp in params:
            if n in ("text_or_element", "body") and "Element" in a:
                from odfdo import Paragraph, Span

                for rep in range(2 if ctx.quick else 10):
                    kw = {}
                    for n2, a2, d2 in observable:
                        if allvals[n2] and (rep == 0 or rng.random() < 0.6):
                            kw[n2] = rng.choice(allvals[n2])[0]
                    body_el = Paragraph("element body")
                    if rep % 2:
                        body_el.append(Span("styled", style="T1"))
                    kw[n] = body_el
                    res0 = judge_instance(res, cls, kw, "element-content", f"with-element:{n}", defaults)
                    try:
                        e = cls(**kw)
                        res.judge()
                        res.cls((cls.__name__, f"content:{n}", "element", "ok"), True)
                        if "element body" not in e.inner_text:
                            res.violation(f"content-not-readable:{cls.__name__}.{n}", {"given": "Paragraph('element body')", "inner_text": e.inner_text[:200]}, {"kind": "ctor", "class": cls.__name__, "kwargs": {k: repr(v) for k, v in kw.items()}})
                    except (TypeError, ValueError):
                        pass
        # content arguments: the text must be readable
        for n, a, d, hp in params:
            if n in ("text", "text_or_element") and "str" in a and cls.__name__ not in ("VarSet",):
                for s in ("plain text", "  two  spaces\tand tab", "é<&>"):
                    try:
                        e = cls(**{n: s})
                        res.judge()
                        res.cls((cls.__name__, f"content:{n}", "text", "ok"), True)
                        if s not in e.inner_text and s.strip() not in e.inner_text:
                            res.violation(f"content-not-readable:{cls.__name__}.{n}", {"given": s, "inner_text": e.inner_text[:200]}, {"kind": "ctor", "class": cls.__name__, "kwargs": {n: s}})
                    except (TypeError, ValueError):
                        pass
    res.info.setdefault("observed_parameters", {}).update(covered)


PATHS = ["from_tag", "parent.children", "get_elements", "xpath", "get_element", "child.parent", "clone", "from_tag_for_clone"]


def part_dispatch(ctx, res, only=None):
    from odfdo import Element

    reg, classes = registry()
    srcs = [{"kind": "template", "name": t} for t in DL.TEMPLATES] + [{"kind": "sample", "name": s} for s in DL.sample_files()]
    if only is not None:
        srcs = [only["source"]]
    for si, src in enumerate(srcs):
        if only is None and not ctx.mine(si):
            continue
        doc = DL.open_source(src)
        seen_tags = set()
        for part_name in ("content", "styles", "meta"):
            try:
                part = doc.get_part(part_name)
                root_el = part.root
            except Exception:
                continue
            root = root_el._Element__element
            per_tag = {}
            for n in root.iter():
                if only is not None and (n.tag != only["tag"] or part_name != only["part"]):
                    continue
                known = isinstance(n.tag, str) and n.tag in reg
                if isinstance(n.tag, str) and not known:
                    # a tag without a specialised class is a plain Element through every path; sampled where a
                    # neighbour (first child, parent) has a specialised class, which is what a path could borrow
                    kid = next((c for c in n if isinstance(c.tag, str)), None)
                    par0 = n.getparent()
                    if not ((kid is not None and kid.tag in reg) or (par0 is not None and par0.tag in reg)):
                        continue
                if isinstance(n.tag, str) and per_tag.get(n.tag, 0) < ((2 if ctx.quick else 40) if known else (1 if ctx.quick else 10)):
                    per_tag[n.tag] = per_tag.get(n.tag, 0) + 1
                    if known:
                        seen_tags.add(n.tag)
                    expect = reg[n.tag] if known else Element
                    q = etree.QName(n)
                    prefix = n.prefix
                    case = {"kind": "dispatch", "source": src, "part": part_name, "tag": n.tag}
                    par = n.getparent()
                    for path in PATHS:
                        try:
                            if path == "from_tag":
                                got = [Element.from_tag(n)]
                            elif path == "from_tag_for_clone":
                                got = [Element.from_tag_for_clone(n, None)]
                            elif path == "parent.children":
                                if par is None:
                                    continue
                                got = [c for c in Element.from_tag(par).children if c._Element__element is n]
                            elif path == "get_elements":
                                got = [c for c in root_el.get_elements(f"//{prefix}:{q.localname}") if c._Element__element is n]
                            elif path == "xpath":
                                got = [c for c in root_el.xpath(f"//{prefix}:{q.localname}") if getattr(c, "_Element__element", None) is n]
                            elif path == "get_element":
                                if par is None:
                                    continue
                                g = Element.from_tag(par).get_element(f"{prefix}:{q.localname}")
                                got = [g] if g is not None else []
                            elif path == "child.parent":
                                kids = [c for c in n if isinstance(c.tag, str)]
                                if not kids:
                                    continue
                                got = [Element.from_tag(kids[0]).parent]
                            else:
                                got = [Element.from_tag(n).clone]
                        except Exception as ex:
                            res.judge()
                            res.violation(f"dispatch-raised:{path}:{type(ex).__name__}", {"tag": n.tag, "exc": repr(ex)}, case)
                            continue
                        res.judge()
                        res.cls(("dispatch", expect.__name__ if known else "unregistered:" + etree.QName(n).localname, path), True)
                        if not got:
                            res.violation(f"dispatch:node-not-reached:{path}", {"tag": n.tag}, case)
                        elif any(type(g) is not expect for g in got):
                            res.violation(f"dispatch:wrong-class:{path}", {"tag": n.tag, "expected": expect.__name__, "got": [type(g).__name__ for g in got]}, case)
                    # round trip of the corpus node
                    try:
                        w = Element.from_tag(n)
                        back = Element.from_tag(w.serialize(with_ns=True))
                        res.judge()
                        res.cls(("corpus-roundtrip", expect.__name__), True)
                        if type(back) is not expect:
                            res.violation("corpus-roundtrip:class-differs", {"tag": n.tag, "got": type(back).__name__}, case)
                        else:
                            a = etree.tostring(copy.deepcopy(n), method="c14n", with_tail=False) if False else c14n_notail(n)
                            b = c14n_notail(back._Element__element)
                            if a != b:
                                res.violation("corpus-roundtrip:infoset-differs", {"tag": n.tag, "before": a[-300:].decode("utf-8", "replace"), "after": b[-300:].decode("utf-8", "replace")}, case)
                    except Exception as ex:
                        res.violation(f"corpus-roundtrip-raised:{type(ex).__name__}", {"tag": n.tag, "exc": repr(ex)}, case)
        res.count("registry_tags_seen_in_corpus", len(seen_tags))


def c14n_notail(n):
    return c14n(n)


def part_content_roundtrip(ctx, res):
    """Paragraph-like elements with white-space-only text nodes between sibling elements."""
    from odfdo import Element

    from . import c09

    rng = ctx.rng("content")
    for i in range(150 if ctx.quick else 40000):
        pieces = c09.gen_pieces(rng)
        xml = c09.pieces_xml(pieces, heading=rng.random() < 0.3)
        # add elements separated by a single space only
        xml = xml.replace("</text:p>", '<text:span text:style-name="A">x</text:span> <text:span text:style-name="B">y</text:span></text:p>') if xml.endswith("</text:p>") else xml
        e = Element.from_tag(xml)
        res.judge()
        res.cls(("content-roundtrip", type(e).__name__), True)
        for label, s in (("with_ns", e.serialize(with_ns=True)), ("stripped", e.serialize())):
            back = Element.from_tag(s)
            if type(back) is not type(e) or c14n_notail(back._Element__element) != c14n_notail(e._Element__element):
                res.violation(f"content-roundtrip:differs:{label}", {"before": e.serialize()[-300:], "after": back.serialize()[-300:]}, {"kind": "content", "xml": xml})
                break


TEXT_ARGS = ["plain", "é 日", "a&b<c>\"q'", "two  spaces", " lead", "trail ", "tab\there", "line\nbreak", "nbsp\u00a0here", "thin\u2009space", "wide\u3000space",
             "nnbsp\u202fx", "mixed \u00a0 \t x", ""]


def part_text_args(ctx, res):
    """The text argument of the text classes, with formatted True (kept exactly) and False (runs of
    SPACE / TAB / LF become one space, as documented; every other character is kept)."""
    import re

    from odfdo import Element, Header, Paragraph, Span

    makers = {
        "Paragraph": lambda t, f: Paragraph(t, formatted=f),
        "Header": lambda t, f: Header(2, t, formatted=f),
        "Span": lambda t, f: Span(t, formatted=f),
        "Paragraph.append": lambda t, f: (lambda p: (p.append(t, formatted=f), p)[1])(Paragraph("")),
    }
    for name, mk in makers.items():
        for t in TEXT_ARGS:
            for f in (True, False):
                res.judge()
                res.cls(("text-arg", name, "formatted" if f else "unformatted", "nonascii-space" if re.search("[\u00a0\u2009\u3000\u202f]", t) else "ascii"), True)
                case = {"kind": "text-arg", "maker": name, "text": t, "formatted": f}
                try:
                    el = mk(t, f)
                    exp = t if f else re.sub("[ \t\n]+", " ", t)
                    back = Element.from_tag(el.serialize(with_ns=True))
                    for label, got in (("inner_text", el.inner_text), ("reparse", back.inner_text)):
                        if got != exp:
                            res.violation(f"text-arg:{name}:{label}-differs", {"given": t, "formatted": f, "got": got, "expected": exp}, case)
                            break
                except Exception as ex:
                    res.violation(f"text-arg-raised:{name}:{type(ex).__name__}", {"given": t, "exc": repr(ex)}, case)


CONTENT_STRINGS = ["x", "x\n", "x\n\n", "a\nb\n", "\n", " lead\n", "two\n\nparas", "tab\tin\n", "é\n"]


def part_content_readers(ctx, res):
    """Content given as a str to the classes that hold paragraphs is read back exactly through their content
    property, line ends at the end included; directly and after re-parsing."""
    from odfdo import Annotation, Cell, Element, ListItem, Note

    makers = {
        "Note.note_body": (lambda s_: Note("footnote", note_id="n1", citation="1", body=s_), lambda e: e.note_body),
        "Annotation.note_body": (lambda s_: Annotation(s_, creator="vf"), lambda e: e.note_body),
        "ListItem.text_content": (lambda s_: ListItem(s_), lambda e: e.text_content),
        "Cell.text_content": (lambda s_: Cell(text=s_), lambda e: e.text_content),
    }
    for name, (mk, rd) in makers.items():
        for s_ in CONTENT_STRINGS:
            res.judge()
            res.cls(("content-reader", name, "trailing-newline" if s_.endswith("\n") else "plain"), True)
            case = {"kind": "content-reader", "maker": name, "text": s_}
            try:
                e = mk(s_)
                for label, got in (("direct", rd(e)), ("reparse", rd(Element.from_tag(e.serialize(with_ns=True))))):
                    if got != s_:
                        res.violation(f"content-reader:{name}:{label}-differs", {"given": s_, "got": got}, case)
                        break
            except Exception as ex:
                res.violation(f"content-reader-raised:{name}:{type(ex).__name__}", {"given": s_, "exc": repr(ex)}, case)
    # content of another vocabulary in its own default name space (a formula inside a frame, as flat files hold it)
    foreign = [
        '<draw:frame draw:name="f1" svg:width="2cm" svg:height="1cm"><draw:object><math xmlns="http://www.w3.org/1998/Math/MathML"><mrow><mi>x</mi><mo>=</mo><mn>1</mn></mrow></math></draw:object></draw:frame>',
        '<text:p>formula <draw:frame draw:name="f2"><draw:object><math xmlns="http://www.w3.org/1998/Math/MathML" display="block"><mi>y</mi></math></draw:object></draw:frame> end</text:p>',
        '<text:p><text:span>svg <svg xmlns="http://www.w3.org/2000/svg" width="1"><g/></svg></text:span></text:p>',
    ]
    for xml in foreign:
        res.judge()
        res.cls(("content-roundtrip", "foreign-default-namespace"), True)
        case = {"kind": "content", "xml": xml}
        try:
            e = Element.from_tag(xml)
            for label, ser in (("with_ns", e.serialize(with_ns=True)), ("stripped", e.serialize())):
                back = Element.from_tag(ser)
                if type(back) is not type(e) or c14n_notail(back._Element__element) != c14n_notail(e._Element__element):
                    res.violation(f"content-roundtrip:differs:{label}", {"before": e.serialize(with_ns=True)[-300:], "after": back.serialize(with_ns=True)[-300:]}, case)
                    break
        except Exception as ex:
            res.violation(f"content-roundtrip-raised:{type(ex).__name__}", {"xml": xml, "exc": repr(ex)}, case)


def part_own_tags(ctx, res):
    """Every element class the library defines with a tag of its own is the class that parsing this tag yields
    (the classes are enumerated from the class hierarchy, not from the registry they are checked against)."""
    import importlib
    import pkgutil

    import odfdo
    from odfdo import Element

    for m in pkgutil.iter_modules(odfdo.__path__):
        try:
            importlib.import_module("odfdo." + m.name)
        except Exception:
            pass

    def subs(c):
        for s_ in c.__subclasses__():
            yield s_
            yield from subs(s_)

    seen = set()
    for C in subs(Element):
        tag = C.__dict__.get("_tag")
        if C in seen or not tag or "notodf" in tag:
            continue
        seen.add(C)
        res.judge()
        res.cls(("own-tag", C.__name__), True)
        case = {"kind": "own-tag", "class": C.__name__, "tag": tag}
        try:
            got = [("from_tag", type(Element.from_tag(tag))), ("from_tag(xml)", type(Element.from_tag(f"<{tag}/>"))), ("parent.children", type(Element.from_tag(f"<text:section><{tag}/></text:section>").children[0]))]
            try:
                got.append(("instance.clone", type(C().clone)))
            except (TypeError, ValueError):
                pass
        except Exception as ex:
            res.violation(f"own-tag-raised:{C.__name__}:{type(ex).__name__}", {"tag": tag, "exc": repr(ex)}, case)
            continue
        for path, g in got:
            if g is not C and not (g.__name__ == "Style" and tag.startswith("style:")):  # the generic Style class claims the style:* tags
                res.violation(f"own-tag:wrong-class:{path}", {"class": C.__name__, "tag": tag, "got": g.__name__}, case)
                break
    res.count("classes_with_own_tag", len(seen))


PAIRS = [
    # (class, argument given as a pair, the two properties that give the halves back)
    ("ConnectorShape", "glue_points", ("start_glue_point", "end_glue_point"), [0, 1, 2, 3, 7]),
    ("ConnectorShape", "p1", ("x1", "y1"), ["0cm", "1.5cm", "-2cm"]),
    ("ConnectorShape", "p2", ("x2", "y2"), ["0cm", "1.5cm", "-2cm"]),
    ("LineShape", "p1", ("x1", "y1"), ["0cm", "1.5cm", "-2cm"]),
    ("LineShape", "p2", ("x2", "y2"), ["0cm", "1.5cm", "-2cm"]),
    ("RectangleShape", "size", ("width", "height"), ["0cm", "1cm", "2.5cm"]),
    ("RectangleShape", "position", ("pos_x", "pos_y"), ["0cm", "1cm", "-2.5cm"]),
    ("EllipseShape", "size", ("width", "height"), ["0cm", "1cm", "2.5cm"]),
    ("EllipseShape", "position", ("pos_x", "pos_y"), ["0cm", "1cm", "-2.5cm"]),
]


def pair_case(cname, arg, props, a, b):
    """An argument given as a pair is readable half by half - every value of the domain, the falsy ones (0, '0cm')
    too - on the new object, after both serialisations and on the clone."""
    import odfdo
    from odfdo import Element

    cls = getattr(odfdo, cname)
    e = cls(**{arg: (a, b)})
    out = []
    for how, obj in (("new", e), ("reparsed", Element.from_tag(e.serialize())), ("reparsed-ns", Element.from_tag(e.serialize(with_ns=True))), ("clone", e.clone)):
        if type(obj) is not cls:
            out.append((f"pair-argument:{cname}.{arg}:class-lost:{how}", {"got": type(obj).__name__}))
            continue
        got = tuple(getattr(obj, p) for p in props)
        if got != (str(a), str(b)):
            out.append((f"pair-argument:{cname}.{arg}:dropped-or-altered:{how}", {"given": [a, b], "got": list(got), "xml": obj.serialize()}))
    return out


def part_pairs(ctx, res):
    import odfdo

    for cname, arg, props, dom in PAIRS:
        cls = getattr(odfdo, cname, None)
        if cls is None or not all(hasattr(cls, p) for p in props):
            res.count("pairs_unavailable")
            continue
        for a in dom:
            for b in dom:
                res.judge()
                res.cls(("pair-argument", cname, arg, "falsy" if (not a or not b or a == "0cm" or b == "0cm") else "plain"), True)
                try:
                    v = pair_case(cname, arg, props, a, b)
                except Exception as e:
                    v = [(f"pair-argument:{cname}.{arg}:raised:{type(e).__name__}", {"exc": repr(e), "given": [a, b]})]
                for m, d in v[:1]:
                    res.violation(m, d, {"kind": "pair", "cls": cname, "arg": arg, "props": list(props), "a": a, "b": b})


def run(ctx, res):
    if ctx.shard == 3 % ctx.nshards:
        part_pairs(ctx, res)
    if ctx.shard == 2 % ctx.nshards:
        part_own_tags(ctx, res)
    if ctx.shard == 0:
        part_text_args(ctx, res)
    if ctx.shard == 1 % ctx.nshards:
        part_content_readers(ctx, res)
    part_ctor(ctx, res)
    part_dispatch(ctx, res)
    part_content_roundtrip(ctx, res)
    res.sample({"class": "Frame", "kwargs": {"name": "é name 日", "anchor_type": "as-char"}})
    res.sample({"dispatch": "text:note in note.odt via parent.children / xpath / clone"})


def replay(case):
    from ..core import Res

    res = Res()
    if case.get("kind") == "content":
        from odfdo import Element

        e = Element.from_tag(case["xml"])
        back = Element.from_tag(e.serialize())
        if c14n_notail(back._Element__element) != c14n_notail(e._Element__element):
            return [{"mechanism": "content-roundtrip:differs", "detail": {"before": e.serialize()[-300:], "after": back.serialize()[-300:]}}]
    if case.get("kind") == "pair":
        return [{"mechanism": m, "detail": d} for m, d in pair_case(case["cls"], case["arg"], tuple(case["props"]), case["a"], case["b"])]
    if case.get("kind") == "dispatch":
        class _Q:
            quick = False
        part_dispatch(_Q, res, only=case)
        return res.violations
    if case.get("kind") == "own-tag":
        class _C2:
            shard = 2
            nshards = 16
        part_own_tags(_C2, res)
        return [v for v in res.violations if v["case"] == case]
    if case.get("kind") == "content-reader":
        class _C1:
            shard = 1
            nshards = 16
        part_content_readers(_C1, res)
        return [v for v in res.violations if v["case"] == case]
    if case.get("kind") == "text-arg":
        class _C:
            shard = 0
        part_text_args(_C, res)
        return [v for v in res.violations if v["case"] == case]
    return res.violations


MANIFEST = {
    "text": "Exploration by runtime monitoring: the element class registry is enumerated at run time; each class is instantiated with every observable constructor argument alone (all values of its generator or enumeration), all together and in random subsets, and the monitor checks that each argument is readable through its same-named property (not dropped or altered), that both serialisations come back through from_tag as the same class with a C14N-equal tree and equal property values, and that clone does too; over every template and sample, every registered tag present is reached through eight access paths that must all yield the registered class (and tags without a specialised class, next to one that has, a plain Element), and the sampled nodes must round-trip; the text argument of the text classes is read back with formatted True and False over strings with ASCII and non-ASCII white space; paragraph-like content with white-space-only text nodes between elements must round-trip. Held = no argument lost, no class or infoset change on what was observed, apart from listed findings.",
    "note": "Trusted: the convention 'constructor argument == same-named property'; the enumeration table for closed domains; lxml C14N. Classes judged elsewhere (Cell: C06, NamedRange: C19, Style: C13) are skipped here; transformed/content arguments are listed in TRANSFORMED.",
    "technique": "runtime monitoring: construction/round-trip oracle over the run-time class registry + dispatch monitor over every access path on the corpus",
}
