"""C03 - saving and reopening a document loses nothing, in every packaging.

Monitor shape: independent reader of the artefact.  Just before every save the in-memory
state is snapshotted (without perturbing which parts are parsed); the saved bytes are read
back by zipfile/os.walk + lxml (not by odfdo) and compared part by part (XML parts as C14N 2.0
infosets, others byte for byte); then odfdo reopens the artefact and must give the same."""

from .. import doclab as DL

LEVEL = "exploration"
RULE = (
    "Sources: the 4 templates, every sample under tests/samples (path-backed lazy zip or BytesIO), generated "
    "text/spreadsheet documents. Histories of 0-5 edits from {parse body/styles/meta/manifest/settings, append/"
    "delete paragraph, table set_value, insert_style, meta title/user-defined, add_file(path|file-like|same "
    "content), set_part of an XML part (before or after it was parsed), set_part/del_part of binary parts, "
    "image frame}, then save to {zip path, zip BytesIO, folder} (pretty=False), reopen with odfdo, 1-3 cycles "
    "changing packaging between cycles; plus a flat-XML export checked for well-formedness and inclusion of "
    "every paragraph text and image payload. One evaluation = one save judged (member set, every XML part "
    "C14N-equal, every other part byte-equal, then the same through odfdo's reopen). Class = (source kind/"
    "doc type, parts parsed before the save, edit kinds present incl. set_part by shortcut name, packaging, "
    "cycle index, same target as the previous cycle?)."
)
SHARDS = {"quick": 16, "thorough": 16}
TIMEOUT = {"quick": 400, "thorough": 7200}
MIN_EVALS = {"quick": 1500, "thorough": 40000}
CASES = {"quick": 60, "thorough": 5000}
ASSUMPTIONS = [
    "the only in-memory change save() may make is the meta:generator stamp (compared modulo that element) and the manifest.rdf reconciliation documented in _check_manifest_rdf",
    "directory entries of the zip carry no content: non-leaf directory entries may be dropped by a folder cycle",
    "encrypted packages and non-UTF-8 XML parts are not in the corpus",
]
REACH = [
    ("odfdo.container", "Container.save", True),
    ("odfdo.container", "Container._save_zip", True),
    ("odfdo.container", "Container._save_folder", True),
    ("odfdo.container", "Container._read_zip", True),
    ("odfdo.container", "Container._get_zip_part", True),
    ("odfdo.container", "Container._xml_content", True),
    ("odfdo.document", "Document.save", True),
    ("odfdo.document", "Document.set_part", True),
    ("odfdo.document", "Document.del_part", True),
    ("odfdo.xmlpart", "XmlPart.serialize", True),
]

HOWS = ["zip-path", "zip-io", "folder"]


def rdf_adjust(E, A):
    """save() reconciles manifest.rdf with the manifest: not a loss/invention of the history."""
    E = dict(E)
    if "manifest.rdf" in A and "manifest.rdf" not in E:
        E["manifest.rdf"] = A["manifest.rdf"]
    if "manifest.rdf" in E and "manifest.rdf" not in A:
        entries = []
        try:
            from lxml import etree

            root = etree.fromstring(E.get(DL.MANIFEST, b"<x/>"))
            entries = [e.get("{%s}full-path" % DL.MNS) for e in root.iter("{%s}file-entry" % DL.MNS)]
        except Exception:
            pass
        if "manifest.rdf" not in entries:
            E.pop("manifest.rdf")
    return E


def judge_save(doc, model, how, tmpdir, tag, reuse=None):
    """-> (violations, artefact)"""
    out = []
    E = DL.expected_state(doc, model)
    try:
        artefact, pkg = DL.save_doc(doc, how, tmpdir, pretty=False, tag=tag, reuse=reuse)
    except Exception as e:
        import traceback

        return [(f"save-raised:{how}:{type(e).__name__}", {"exc": repr(e), "tb": traceback.format_exc()[-700:]})], None
    A = dict(pkg.parts)
    for d in pkg.dirs:
        A[d] = b""
    E = rdf_adjust(E, A)
    out += DL.compare_states(E, A, what=f"saved-{how}")
    # what the history added through add_file (and did not delete afterwards) is what a reader of the file sees
    for uri, data in model.added_bytes.items():
        if uri not in model.deleted and uri not in model.overwritten and A.get(uri) != data:
            out.append((f"saved-{how}:added-file-{'missing' if uri not in A else 'altered'}", {"uri": uri}))
    if pkg.parts.get("mimetype") != E.get("mimetype"):
        out.append((f"saved-{how}:mimetype-differs", {"expected": E.get("mimetype"), "got": pkg.parts.get("mimetype")}))
    # reopen with odfdo: the same content must come back through get_part
    try:
        doc2 = DL.reopen(artefact)
        R = {}
        for name in pkg.parts:
            got = doc2.get_part(name)
            # XML class parts (also those of embedded objects) come back as XmlPart objects
            R[name] = got.serialize() if hasattr(got, "serialize") else got
        out += DL.compare_states({k: v for k, v in A.items() if not k.endswith("/")}, R, what=f"reopened-{how}")
        names = {n for n in doc2.get_parts() if not n.endswith("/")}
        if names != set(pkg.parts):
            out.append((f"reopened-{how}:part-list-differs", {"lost": sorted(set(pkg.parts) - names)[:5], "invented": sorted(names - set(pkg.parts))[:5]}))
    except Exception as e:
        import traceback

        out.append((f"reopen-raised:{type(e).__name__}", {"exc": repr(e), "tb": traceback.format_exc()[-800:]}))
        doc2 = None
    return out, doc2


def judge_flat_xml(doc, tmpdir):
    from lxml import etree

    out = []
    st = DL.memory_state(doc)
    data, _ = DL.save_doc(doc, "xml-io", tmpdir, pretty=False)
    try:
        root = etree.fromstring(data)
    except etree.XMLSyntaxError as e:
        return [("flat-xml:not-well-formed", {"exc": repr(e)})]
    out += DL.flat_structure_issues(st, data)
    flat_paras = set(DL.paragraph_texts(data))
    for name in ("content.xml", "styles.xml"):
        if name in st:
            for t in DL.paragraph_texts(st[name]):
                if t and t not in flat_paras:
                    out.append(("flat-xml:paragraph-missing", {"part": name, "text": t[:120]}))
                    break
    out += DL.flat_payload_issues(st, data)
    return out


def run_case(case, res, rng=None):
    """case = {"source":…, "cycles":[{"edits":[…], "how":…}], "flat": bool}"""
    v_all = []
    with DL.TmpDir() as tmp:
        doc = DL.open_source(case["source"])
        srckind = case["source"]["kind"] + ":" + doc.mimetype.rsplit(".", 1)[-1]
        # same-target histories may start on a place that is already taken (a larger archive in the buffer,
        # another document's folder)
        reuse = {"occupant": case["occupant"]} if case.get("same_target") and case.get("occupant") else None
        for ci, cyc in enumerate(case["cycles"]):
            model = DL.EditModel()
            kinds = set()
            for op in cyc["edits"]:
                try:
                    tag = DL.apply_edit(doc, op, model, tmp)
                except Exception as e:
                    import traceback

                    return [(f"edit-raised:{op['op']}:{type(e).__name__}", {"exc": repr(e), "tb": traceback.format_exc()[-800:], "cycle": ci})]
                if tag != "skipped":
                    kinds.add(tag.split(":")[0] if not tag.startswith("set_part_xml") else tag)
            parsed = "+".join(p.split(".")[0].split("/")[-1] for p in DL.parsed_parts(doc)) or "none"
            if cyc.get("flat"):
                v = judge_flat_xml(doc, tmp)
                if res is not None:
                    res.judge()
                    res.cls((srckind, "flat-xml", parsed), True)
                if v:
                    return [(m, dict(d, cycle=ci)) for m, d in v]
            # cycles may save again at the same place (stale members of an earlier save must go)
            v, doc2 = judge_save(doc, model, cyc["how"], tmp, ("same" if case.get("same_target") else f"{ci}") + str(case.get("name_key", "")), reuse=reuse)
            if res is not None:
                res.judge()
                res.cls((srckind, cyc["how"], f"cycle{ci}", "parsed=" + parsed, "edits=" + "+".join(sorted(kinds)) if kinds else "edits=none", "same-target" if case.get("same_target") else ""), True)
            if v:
                return [(m, dict(d, cycle=ci, how=cyc["how"], parsed=parsed)) for m, d in v]
            doc = doc2
    return v_all


def gen_case(rng):
    cycles = []
    for _ in range(rng.choice([1, 1, 2, 3])):
        n = rng.choice([0, 0, 1, 2, 3, 5])
        edits = DL.gen_edits(rng, n)
        if rng.random() < 0.2:
            edits = DL.readd_theme(rng, edits)  # a file added, deleted, added again with the same content
        cycles.append({"edits": edits, "how": rng.choice(HOWS), "flat": rng.random() < 0.15})
    case = {"source": DL.gen_source(rng), "cycles": cycles, "same_target": rng.random() < 0.4, "name_key": rng.choice(["", "", "k%d" % rng.randrange(500)])}
    if case["same_target"] and rng.random() < 0.5:
        case["occupant"] = rng.choice(["background.odp", "example.odp", "frame_image.odp"])
    return case


def held_handles_case(src, how1, pretty1, how2):
    """One Document object used across saves, the way a long-running program does: the body, the metadata, the
    styles and a paragraph are taken once, the document is saved, then edited *through the objects already held*
    and saved again. Nothing of what was written through them may be missing from the second artefact."""
    from odfdo import Paragraph

    with DL.TmpDir() as tmp:
        doc = DL.open_source(src)
        is_text = doc.mimetype.endswith(".text")
        body, meta, styles, manifest = doc.body, doc.meta, doc.styles, doc.manifest
        para = None
        if is_text:
            para = Paragraph("held paragraph")
            body.append(para)
        try:
            DL.save_doc(doc, how1, tmp, pretty=pretty1, tag="h1")
        except Exception as e:
            return [(f"save-raised:{type(e).__name__}", {"exc": repr(e), "save": 1})]
        marker = "VF-AFTER-FIRST-SAVE"
        meta.title = marker
        styles.root.set_attribute("office:version", styles.root.get_attribute("office:version") or "1.2")
        sroot = styles.root
        sroot.append(_marker_style(marker))
        if para is not None:
            para.append(" " + marker)
            body.append(Paragraph(marker + "-2"))
        try:
            artefact, pkg = DL.save_doc(doc, how2, tmp, pretty=False, tag="h2")
        except Exception as e:
            return [(f"save-raised:{type(e).__name__}", {"exc": repr(e), "save": 2})]
        parts = dict(pkg.parts)
        missing = []
        if marker.encode() not in parts.get("meta.xml", b""):
            missing.append("meta.title set through the Meta object held since before the first save")
        if marker.encode() not in parts.get("styles.xml", b""):
            missing.append("element appended through the Styles part held since before the first save")
        if is_text:
            c = parts.get("content.xml", b"")
            if ("held paragraph " + marker).encode() not in c:
                missing.append("text appended to a paragraph held since before the first save")
            if (marker + "-2").encode() not in c:
                missing.append("paragraph appended through the body held since before the first save")
        if missing:
            return [("held-handle-edit-lost-after-save", {"first_save": [how1, pretty1], "second_save": how2, "missing": missing})]
        # and the objects a fresh access gives are still the ones held
        if doc.body is not body and (marker + "-2") not in (doc.body.serialize() if is_text else marker + "-2"):
            return [("held-handle-detached-after-save", {"first_save": [how1, pretty1]})]
    return []


def _marker_style(marker):
    from odfdo import Element

    return Element.from_tag(f'<office:vf-marker xmlns:office="urn:oasis:names:tc:opendocument:xmlns:office:1.0" office:note="{marker}"/>')


def run(ctx, res):
    hsrc = [{"kind": "template", "name": t} for t in DL.TEMPLATES] + [{"kind": "sample", "name": s} for s in DL.sample_files() if not DL.is_big(s)][:8]
    j = 0
    for src in hsrc:
        for how1 in ("zip-io", "zip-path", "folder"):
            for pretty1 in (False, True):
                j += 1
                if not ctx.mine(j):
                    continue
                how2 = ("zip-io", "zip-path", "folder")[j % 3]
                case = {"held": {"source": src, "how1": how1, "pretty1": pretty1, "how2": how2}}
                try:
                    v = held_handles_case(src, how1, pretty1, how2)
                except Exception as e:
                    import traceback

                    v = [(f"harness-raised:{type(e).__name__}", {"tb": traceback.format_exc()[-800:]})]
                res.judge()
                res.cls(("held-handles", src["kind"], how1, "pretty" if pretty1 else "plain", how2), True)
                for m, d in v[:1]:
                    res.violation(m, d, {"case": case})
    # every sample and template once with an unmodified open/save in each packaging (identity)
    base = [{"kind": "template", "name": t} for t in DL.TEMPLATES] + [{"kind": "sample", "name": s} for s in DL.sample_files()]
    i = 0
    for src in base:
        for how in HOWS:
            i += 1
            if not ctx.mine(i):
                continue
            case = {"source": src, "cycles": [{"edits": [], "how": how, "flat": how == "zip-io"}]}
            v = run_case(case, res)
            if v:
                m, d = v[0]
                res.violation(m, d, {"case": case})
    for c in range(CASES[ctx.tier]):
        rng = ctx.rng(c)
        case = gen_case(rng)
        v = run_case(case, res)
        if c < 2:
            res.sample(case)
        if v:
            m, d = v[0]
            res.violation(m, d, {"case": case})
        res.count("histories")


def replay(case):
    if "held" in case["case"]:
        h = case["case"]["held"]
        return [{"mechanism": m, "detail": d} for m, d in held_handles_case(h["source"], h["how1"], h["pretty1"], h["how2"])]
    v = run_case(case["case"], None)
    return [{"mechanism": m, "detail": d} for m, d in (v or [])]


MANIFEST = {
    "text": "Exploration by runtime monitoring: every template and sample is cycled unmodified through each packaging, and generated edit histories (which parts are parsed, body/table/style/meta edits, added files, raw set_part/del_part) are followed by saves to zip path, zip buffer and folder over 1-3 reopen cycles; at every save a monitor snapshots the in-memory state and an independent reader (zipfile/os.walk + lxml C14N 2.0) compares the artefact part by part, then odfdo's own reopen must return the same; flat-XML exports are checked for well-formedness and content inclusion. Held = nothing lost, invented or altered on the saves observed. Also: one Document object used across saves, edited through the body / meta / styles objects held since before the first save - everything written through them must be in the second artefact.",
    "note": "Trusted: zipfile, lxml C14N 2.0; the snapshot reads private caches (_Document__xmlparts, _Container__parts) only to avoid perturbing which parts are parsed. meta:generator and manifest.rdf reconciliation are the changes save() is allowed to make.",
    "technique": "runtime monitoring: independent reader of the saved artefact compared with a pre-save snapshot of the in-memory state",
}
