"""C18 - date, datetime, duration, boolean, colour, length codecs: exact inverses in ODF
lexical form; decoders reject.

Monitor shape: icontract post-conditions on the real encode/decode functions (vf.contracts),
driven over boundary lattices (exhaustive) and random values; near-miss strings for decoders."""

import datetime as dt
import itertools
from decimal import Decimal

from .. import contracts as K
from ..oracles import lex

LEVEL = "exploration"
RULE = (
    "Contracts on Boolean/Date/DateTime/Duration encode+decode, rgb2hex, hex2rgb evaluated on: every day of "
    "years {1,2,999,1000,1999,2000,2024,9999} + random dates; datetimes on a lattice {00:00:00,23:59:59,"
    "12:34:56} x {us 0,1,999999} x {naive,UTC,+00:01,-00:01,+14:00,-12:00,-05:30,+05:45} + random; durations: "
    "every 7th (quick) / every (thorough) whole second in [-2d,+2d], carry lattice to +-10 years, random to "
    "+-50 years; colours: corner lattice {0,1,15,16,127,128,254,255}^3 + 50k random (quick) / all 256^3 "
    "(thorough), all 147 CSS names in 3 letter cases; lengths: Unit round trip over a lattice of values x units "
    "(incl. negative). Decoders: each valid encoding mutated by one edit (delete/insert/replace from "
    "'0-9PTHMSDYWZ:+-., ') -> near-miss strings; a decoder must raise or return the value the string denotes. "
    "One evaluation = one contract evaluation. Class = (codec, direction, boundary tag or mutation kind+char "
    "class, outcome)."
)
SHARDS = {"quick": 16, "thorough": 16}
TIMEOUT = {"quick": 240, "thorough": 3600}
MIN_EVALS = {"quick": 100000, "thorough": 10000000}
EXHAUSTIVE = {"quick": False, "thorough": False}
ASSUMPTIONS = [
    "a date reads back as datetime at midnight (odfdo convention pinned by its tests)",
    "ISO-8601 forms that Python's fromisoformat accepts outside the ODF lexical space are judged by value "
    "(digit reading) and not indicted as such; forms with no simple reading are counted as unjudged",
    "CSS colour names are compared with a frozen copy of the CSS3 table (vf/oracles/css3.py)",
    "sub-second durations are outside the stated domain: only the lexical form of their encoding is checked",
]
REACH = [
    ("odfdo.datatype", "Boolean.decode", True),
    ("odfdo.datatype", "Boolean.encode", True),
    ("odfdo.datatype", "Date.decode", True),
    ("odfdo.datatype", "Date.encode", True),
    ("odfdo.datatype", "DateTime.decode", True),
    ("odfdo.datatype", "DateTime.encode", True),
    ("odfdo.datatype", "Duration.decode", True),
    ("odfdo.datatype", "Duration.encode", True),
    ("odfdo.datatype", "Unit.__init__", True),
    ("odfdo.utils.color", "hex2rgb", True),
    ("odfdo.utils.color", "rgb2hex", True),
    ("odfdo.utils.color", "hexa_color", True),
]

MUT_ALPHABET = "0123456789PTHMSDYWZ:+-., "
YEARS = [1, 2, 999, 1000, 1999, 2000, 2024, 9999]
ZONES = [None, dt.timezone.utc] + [
    dt.timezone(dt.timedelta(minutes=m)) for m in (1, -1, 14 * 60, -12 * 60, -(5 * 60 + 30), 5 * 60 + 45)
]


def _ztag(z):
    if z is None:
        return "naive"
    off = z.utcoffset(None)
    return "utc" if not off else ("east" if off > dt.timedelta(0) else "west")


class Driver:
    def __init__(self, ctx, res):
        self.ctx, self.res = ctx, res
        self.i = 0

    def mine(self):
        self.i += 1
        return self.ctx.mine(self.i)

    def call(self, name, fn, arg, cls):
        """Run one monitored call; contracts raise ContractBroken."""
        before = sum(K.COUNT.values())
        outcome = "ok"
        try:
            r = fn(arg)
        except K.ContractBroken as e:
            w = e.witness
            self.res.violation(
                f"contract:{w.get('contract', name)}:{cls[0] if cls else ''}",
                {"arg": arg, "witness": w},
                {"codec": name, "arg": _ser(arg)},
                known=None,
            )
            r = None
            outcome = "broken"
        except Exception as e:
            r = e
            outcome = "raise:" + type(e).__name__
        self.res.judge(sum(K.COUNT.values()) - before)
        self.res.cls((name,) + tuple(cls) + (outcome,), True)
        return r, outcome


def _ser(v):
    if isinstance(v, dt.datetime):
        off = v.utcoffset()
        return {"t": "datetime", "f": [v.year, v.month, v.day, v.hour, v.minute, v.second, v.microsecond], "off": None if off is None else off.total_seconds()}
    if isinstance(v, dt.date):
        return {"t": "date", "f": [v.year, v.month, v.day]}
    if isinstance(v, dt.timedelta):
        return {"t": "timedelta", "f": [v.days, v.seconds, v.microseconds]}
    if isinstance(v, tuple):
        return {"t": "tuple", "f": list(v)}
    return {"t": "raw", "f": v}


def _deser(d):
    t, f = d["t"], d["f"]
    if t == "datetime":
        tz = None if d["off"] is None else dt.timezone(dt.timedelta(seconds=d["off"]))
        return dt.datetime(*f, tzinfo=tz)
    if t == "date":
        return dt.date(*f)
    if t == "timedelta":
        return dt.timedelta(days=f[0], seconds=f[1], microseconds=f[2])
    if t == "tuple":
        return tuple(f)
    return f


def mutations(s, rng, n):
    """n one-edit near-misses of s: (string, kind, char)."""
    out = []
    for _ in range(n):
        k = rng.choice(["del", "ins", "rep"])
        pos = rng.randrange(len(s) + (1 if k == "ins" else 0)) if s else 0
        ch = rng.choice(MUT_ALPHABET)
        if k == "del" and s:
            m = s[:pos] + s[pos + 1 :]
        elif k == "ins":
            m = s[:pos] + ch + s[pos:]
        elif s:
            m = s[:pos] + ch + s[pos + 1 :]
        else:
            m = ch
        out.append((m, k, "digit" if ch.isdigit() else ("letter" if ch.isalpha() else "punct")))
    return out


def _codec_fns():
    from odfdo import datatype as D
    from odfdo.utils import color as C

    return {
        "Boolean.encode": D.Boolean.encode,
        "Boolean.decode": D.Boolean.decode,
        "Date.encode": D.Date.encode,
        "Date.decode": D.Date.decode,
        "DateTime.encode": D.DateTime.encode,
        "DateTime.decode": D.DateTime.decode,
        "Duration.encode": D.Duration.encode,
        "Duration.decode": D.Duration.decode,
        "rgb2hex": C.rgb2hex,
        "hex2rgb": C.hex2rgb,
    }


def run(ctx, res):
    K.install()
    F = _codec_fns()
    from odfdo.datatype import Unit
    from odfdo.utils.color import hexa_color

    d = Driver(ctx, res)
    rng = ctx.rng("c18")
    quick = ctx.quick

    def roundtrip(kind, v, tag):
        enc, o = d.call(f"{kind}.encode", F[f"{kind}.encode"], v, ("enc", tag))
        if o != "ok":
            if o.startswith("raise"):
                res.violation(f"encode-raised:{kind}:{tag}", {"value": v, "exc": repr(enc)}, {"codec": f"{kind}.encode", "arg": _ser(v)})
            return None
        d.call(f"{kind}.decode", F[f"{kind}.decode"], enc, ("dec-valid", tag))
        return enc

    def nearmiss(kind, enc, n):
        for m, k, chcls in mutations(enc, rng, n):
            d.call(f"{kind}.decode", F[f"{kind}.decode"], m, ("dec-nearmiss", k, chcls))

    # --- booleans
    if ctx.shard == 0:
        for v in (True, False):
            enc = roundtrip("Boolean", v, "bool")
        for s in ("true", "false", "True", "FALSE", "1", "0", "", " true", "true ", "yes", "tru", "falsee"):
            d.call("Boolean.decode", F["Boolean.decode"], s, ("dec-nearmiss", "lit", "x"))
        for s in ("true", "false", "True", "FALSE", b"true"):
            d.call("Boolean.encode", F["Boolean.encode"], s, ("enc", "strlike"))

    # --- dates: every day of the lattice years (sharded), random others
    for y in YEARS:
        day = dt.date(y, 1, 1)
        while day.year == y:
            if d.mine():
                tag = "y<1000" if y < 1000 else ("y9999" if y == 9999 else "y>=1000")
                if day.month == 2 and day.day == 29:
                    tag += "+leap"
                enc = roundtrip("Date", day, tag)
                if enc and (day.day in (1, 28, 29, 30, 31)):
                    nearmiss("Date", enc, 2 if quick else 6)
            if day == dt.date.max:
                break
            day += dt.timedelta(days=1)
    for _ in range(1500 if quick else 40000):
        day = dt.date.fromordinal(rng.randint(1, dt.date.max.toordinal()))
        roundtrip("Date", day, "random")
    # a datetime given to Date.encode keeps its date
    for _ in range(100):
        v = dt.datetime(rng.randint(1, 9999), rng.randint(1, 12), rng.randint(1, 28), rng.randint(0, 23), rng.randint(0, 59))
        roundtrip("Date", v, "from-datetime")

    # --- datetimes
    times = [(0, 0, 0), (23, 59, 59), (12, 34, 56)]
    micros = [0, 1, 999999, 500000, 120000]
    days = [dt.date(y, m, dd) for y in YEARS for (m, dd) in ((1, 1), (12, 31), (2, 28), (6, 15))] + [dt.date(2024, 2, 29), dt.date(2000, 2, 29)]
    for day, (h, mi, s), us, z in itertools.product(days, times, micros, ZONES):
        if not d.mine():
            continue
        v = dt.datetime(day.year, day.month, day.day, h, mi, s, us, tzinfo=z)
        tag = f"{_ztag(z)}+us{'0' if us == 0 else ('1' if us == 1 else 'n')}+{'y<1000' if day.year < 1000 else 'y>=1000'}"
        enc = roundtrip("DateTime", v, tag)
        if enc and rng.random() < (0.15 if quick else 0.6):
            nearmiss("DateTime", enc, 3)
    for _ in range(1500 if quick else 40000):
        z = rng.choice(ZONES + [dt.timezone(dt.timedelta(minutes=rng.randint(-14 * 60, 14 * 60)))])
        v = dt.datetime.fromordinal(rng.randint(1, dt.date.max.toordinal())).replace(
            hour=rng.randint(0, 23), minute=rng.randint(0, 59), second=rng.randint(0, 59), microsecond=rng.choice([0, 0, rng.randint(0, 999999)]), tzinfo=z
        )
        roundtrip("DateTime", v, "random-" + _ztag(z))

    # the same instant written in several zones, one after the other in the same process: each string must
    # keep the wall-clock fields and the offset of the value it was made from (equal instants compare and hash equal)
    zs = [z for z in ZONES if z is not None] + [dt.timezone(dt.timedelta(hours=2)), dt.timezone(dt.timedelta(hours=14)), dt.timezone(-dt.timedelta(hours=12))]
    for _ in range(120 if quick else 4000):
        base = dt.datetime(rng.randint(2, 9998), rng.randint(1, 12), rng.randint(1, 28), rng.randint(0, 23), rng.randint(0, 59), rng.randint(0, 59), rng.choice([0, 0, rng.randint(1, 999999)]), tzinfo=dt.timezone.utc)
        order = list(zs)
        rng.shuffle(order)
        for z in order[: rng.randint(2, len(order))]:
            roundtrip("DateTime", base.astimezone(z), "same-instant-" + _ztag(z))
        roundtrip("DateTime", base.replace(tzinfo=None), "same-fields-naive")

    # one affix added to a valid string (a sign, a blank, a zone designator, a digit ...): still judged by O-LEX
    if ctx.shard == 0:
        samples = {
            "Duration": ["PT01H30M00S", "P1D", "-PT00H00M01S", "PT0S", "P2DT12H"],
            "Date": ["2024-02-29", "0999-12-31"],
            "DateTime": ["2024-01-31T10:00:00", "2024-01-31T10:00:00Z", "2024-01-31T10:00:00+05:30"],
            "Boolean": ["true", "false"],
        }
        for kind, strs in samples.items():
            for base_s in strs:
                for pre in ["+", "-", " ", "\t", "\n", "0", "P", "T", "++", "+-", "\u2212", "\ufeff"]:
                    d.call(f"{kind}.decode", F[f"{kind}.decode"], pre + base_s, ("dec-affix", "prefix", pre if pre.isascii() and pre.strip() else "blank-or-nonascii"))
                for suf in ["Z", "z", " ", "\n", "+", "-", "S", "0", "+00:00", "T", "."]:
                    d.call(f"{kind}.decode", F[f"{kind}.decode"], base_s + suf, ("dec-affix", "suffix", suf if suf.strip() else "blank"))

    # --- durations
    step = 7 if quick else 1
    for secs in range(-2 * 86400, 2 * 86400 + 1, step):
        if not d.mine():
            continue
        v = dt.timedelta(seconds=secs)
        tag = ("neg" if secs < 0 else ("zero" if secs == 0 else "pos")) + ("+whole-hours" if secs % 3600 == 0 else ("+whole-min" if secs % 60 == 0 else "+secs"))
        enc = roundtrip("Duration", v, tag)
        if enc and secs % 997 == 0:
            nearmiss("Duration", enc, 4)
    carry = [0, 1, 59, 60, 61, 3599, 3600, 3601, 86399, 86400, 86401]
    for base_days in [0, 1, 2, 30, 31, 365, 366, 3650, 3653]:
        for c in carry:
            for sign in (1, -1):
                if not d.mine():
                    continue
                v = sign * dt.timedelta(days=base_days, seconds=c)
                enc = roundtrip("Duration", v, "carry-" + ("neg" if sign < 0 else "pos"))
                if enc:
                    nearmiss("Duration", enc, 3)
    for _ in range(1500 if quick else 40000):
        v = dt.timedelta(seconds=rng.randint(-50 * 366 * 86400, 50 * 366 * 86400))
        roundtrip("Duration", v, "random")
    for _ in range(100):  # sub-second: lexical form only
        v = dt.timedelta(seconds=rng.randint(-10000, 10000), microseconds=rng.randint(1, 999999))
        d.call("Duration.encode", F["Duration.encode"], v, ("enc", "subsecond"))
    # strings of the xsd:duration lexical space the encoder itself never writes: absent components,
    # leading zeros, fractions of 1..12 digits (a timedelta keeps the first six)
    for _ in range(400 if quick else 300000):
        num = lambda hi: rng.choice(["0", "00", "1", "07", "59", "60", "99", str(rng.randint(0, hi))])
        day = rng.choice(["", "", num(400) + "D"])
        tparts = [rng.choice(["", num(99) + "H"]), rng.choice(["", num(99) + "M"])]
        sec = rng.choice(["", num(99), num(99)])
        if sec:
            nd = rng.choice([0, 0, 1, 2, 3, 6, 6, 7, 8, 9, 12])
            frac = "".join(rng.choice("0123456789") for _ in range(nd))
            sec = sec + ("." + frac if frac else "") + "S"
        tail = "".join(tparts) + sec
        sd = rng.choice(["", "-"]) + "P" + day + ("T" + tail if tail else "")
        d.call("Duration.decode", F["Duration.decode"], sd, ("dec-gen", "in" if lex.in_duration_space(sd) else "out", "frac%d" % min(len(sd.partition(".")[2].rstrip("S")), 7) if "." in sd else "nofrac"))
    # hand-written decoder inputs: in the space with another meaning, and just outside it
    if ctx.shard == 0:
        for s in ["PT1.1234567S", "PT00H00M01.500000000S", "PT0.0000001S", "-PT1.9999999S", "PT1.5S", "P-1D", "P1M", "PT1S2", "PT-5S", "P1.5D", "P1Y", "PT", "P", "", "-P", "P1DT", "PT1H1S", "P1DT1M", "PT0S", "-PT0S", "P0D",
                  "PT1M30S", "PT90S", "PT36H", "P2DT12H", "PT0.5S", "PT1H ", " PT1H", "pt1h", "PT1HH", "PTS", "PT1", "1H", "PT1H2H", "P1D2D", "PT1S1M", "P1W", "PT1.S"]:
            d.call("Duration.decode", F["Duration.decode"], s, ("dec-hand", "in" if lex.in_duration_space(s) else "out", "x"))
        for s in ["2024-01-31", "2024-1-31", "20240131", "2024-01-31T10:00:00", "2024-01-31 10:00:00", "2024-13-01", "2024-02-30", "0001-01-01", "10000-01-01", "24-01-31",
                  "2024-01-31Z", "2024-01-31T", "", "2024-W05-3", "2024-031", "2024-01-31T10:00:00Z", "2024-01-31T10:00:00.5", "2024-01-31T10:00:00+01:00", "2024-01-31T24:00:00",
                  "2024-01-31T10:00", "2024-01-31T10", "2024-01-31T10:00:60"]:
            d.call("Date.decode", F["Date.decode"], s, ("dec-hand", "x", "x"))
            d.call("DateTime.decode", F["DateTime.decode"], s, ("dec-hand", "x", "x"))

    # --- colours
    corners = [0, 1, 15, 16, 127, 128, 254, 255]
    for t in itertools.product(corners, repeat=3):
        if not d.mine():
            continue
        h, o = d.call("rgb2hex", F["rgb2hex"], t, ("enc", "corner"))
        if o == "ok":
            d.call("hex2rgb", F["hex2rgb"], h, ("dec-valid", "corner"))
            d.call("hex2rgb", F["hex2rgb"], h.lower(), ("dec-valid", "lower"))
            if hexa_color(t) != h or hexa_color(h) != h:
                res.violation("hexa_color-disagrees", {"t": t, "h": h}, {"codec": "hexa_color", "arg": _ser(t)})
    if quick:
        for _ in range(3200):
            t = (rng.randint(0, 255), rng.randint(0, 255), rng.randint(0, 255))
            h, o = d.call("rgb2hex", F["rgb2hex"], t, ("enc", "random"))
            if o == "ok":
                d.call("hex2rgb", F["hex2rgb"], h, ("dec-valid", "random"))
    else:
        # all 256^3 triples, red channel sharded
        for r in range(256):
            if r % ctx.nshards != ctx.shard:
                continue
            for g in range(256):
                for b in range(256):
                    t = (r, g, b)
                    try:
                        h = F["rgb2hex"](t)
                        F["hex2rgb"](h)
                    except K.ContractBroken as e:
                        res.violation("contract:colour", {"t": t, "witness": e.witness}, {"codec": "rgb2hex", "arg": _ser(t)})
            res.judge(2 * 65536)
        res.cls(("rgb2hex+hex2rgb", "all-24-bit", "ok"), True)
        res.info["colours_exhaustive"] = "all 256^3 triples through rgb2hex and hex2rgb"
    from ..oracles.css3 import CSS3

    for i, name in enumerate(sorted(CSS3)):
        if not ctx.mine(i):
            continue
        for form in (name, name.upper(), name.capitalize()):
            d.call("rgb2hex", F["rgb2hex"], form, ("enc", "cssname"))
    if ctx.shard == 1:
        for bad in [(256, 0, 0), (-1, 0, 0), (0, 0), (0, 0, 0, 0), "notacolor", "", None, 5]:
            d.call("rgb2hex", F["rgb2hex"], bad, ("enc", "invalid"))
        for bad in ["#12345", "#1234567", "123456", "#GGGGGG", "#12345G", " #123456", "#123456 ", "", "#-12345", "#+12345", "# 12345", "#0x1234", "#1_2345"]:
            d.call("hex2rgb", F["hex2rgb"], bad, ("dec-nearmiss", "hand", "x"))
    for _ in range(300 if quick else 5000):
        base = "#%02X%02X%02X" % (rng.randint(0, 255), rng.randint(0, 255), rng.randint(0, 255))
        for m, k, chcls in mutations(base, rng, 2):
            d.call("hex2rgb", F["hex2rgb"], m, ("dec-nearmiss", k, chcls))

    # --- lengths (Unit): str(Unit(s)) == s and Unit(value, unit) round trip
    if ctx.shard in (2, 3):
        for num in ["0", "1", "1.5", "0.254", "10", "2.50", "100.125", "-1", "-0.5", "-12.75"]:
            for unit in ["cm", "mm", "in", "pt", "pc", "px", "em", "%"]:
                s = num + unit
                res.judge()
                try:
                    u = Unit(s)
                    back = str(u)
                    ok = back == s and u.value == Decimal(num) and u.unit == unit
                except Exception as e:
                    ok, back = False, repr(e)
                res.cls(("Unit", "neg" if num.startswith("-") else "pos", "frac" if "." in num else "int", "ok" if ok else "bad"), True)
                if not ok:
                    res.violation("unit-roundtrip:" + ("negative" if num.startswith("-") else "positive"), {"s": s, "back": back}, {"codec": "Unit", "arg": _ser(s)})
                try:
                    u2 = Unit(Decimal(num), unit)
                    if Unit(str(u2)) != u2 or str(u2) != s:
                        res.violation("unit-roundtrip-from-value", {"s": s, "str": str(u2)}, {"codec": "Unit", "arg": _ser(s)})
                except Exception as e:
                    res.violation("unit-raised", {"s": s, "exc": repr(e)}, {"codec": "Unit", "arg": _ser(s)})
        # every argument form (int, float, Decimal, str) over whole values, multiples of ten, fractions: the string is
        # an ODF length (no exponent) and reads back as the same number and unit
        import re as _re

        LENGTH = _re.compile(r"-?([0-9]+(\.[0-9]*)?|\.[0-9]+)(cm|mm|in|pt|pc|px|em|%)\Z")
        nums = [0, 1, 2, 7, 10, 20, 30, 100, 250, 1000, 1200, 101, -30, -100, 0.5, 10.5, 2.25, 0.254, 1234.5, 0.001, -0.75]
        for num in nums:
            forms = [("Decimal", Decimal(str(num)))]
            if float(num) == int(num):
                forms += [("int", int(num)), ("float-whole", float(num)), ("str-int", str(int(num)))]
            else:
                forms += [("float", float(num)), ("str", str(num))]
            for fname, arg in forms:
                for unit in ["cm", "pt", "in", "%"]:
                    res.judge()
                    res.cls(("Unit-arg", fname, "multiple-of-ten" if float(num) % 10 == 0 and num else "other", unit), True)
                    case = {"codec": "Unit-arg", "arg": {"t": fname, "v": repr(arg), "unit": unit}}
                    try:
                        u = Unit(arg, unit) if not isinstance(arg, str) else Unit(arg + unit)
                        text = str(u)
                        back = Unit(text)
                        if not LENGTH.match(text):
                            res.violation(f"unit-not-an-odf-length:{fname}", {"arg": repr(arg), "unit": unit, "str": text}, case)
                        elif back.value != Decimal(str(num)) or back.unit != unit or u.value != Decimal(str(num)):
                            res.violation(f"unit-value-differs:{fname}", {"arg": repr(arg), "unit": unit, "str": text, "back": [str(back.value), back.unit]}, case)
                    except Exception as e:
                        res.violation(f"unit-raised:{fname}", {"arg": repr(arg), "unit": unit, "exc": repr(e)}, case)
        # decoding every spelling the ODF length form allows (what another producer writes): no integer part,
        # no fraction digits after the point, leading and trailing zeros; the number read must be the number written
        for whole, frac in [("0", "5"), ("", "5"), ("", "25"), ("", "05"), ("1", ""), ("12", "75"), ("007", "5"), ("", "125"), ("0", "50"), ("3", "0")]:
            for sign in ("", "-"):
                for point_form in ("plain", "no-int", "bare-point"):
                    if point_form == "plain":
                        if not whole or not frac:
                            continue
                        num = f"{whole}.{frac}"
                    elif point_form == "no-int":
                        if whole.strip("0") or not frac:
                            continue
                        num = f".{frac}"
                    else:
                        if frac or not whole:
                            continue
                        num = f"{whole}."
                    for unit in ["cm", "mm", "in", "pt", "pc", "px"]:
                        text = sign + num + unit
                        if not LENGTH.match(text):
                            continue
                        res.judge()
                        res.cls(("Unit-spelling", point_form, "neg" if sign else "pos", unit), True)
                        case = {"codec": "Unit-spelling", "arg": _ser(text)}
                        want = Decimal(sign + (num if num[0] != "." else "0" + num).rstrip("."))
                        try:
                            u = Unit(text)
                            if u.value != want or u.unit != unit:
                                res.violation(f"unit-spelling-decoded-wrong:{point_form}", {"s": text, "value": str(u.value), "unit": u.unit, "expected": str(want)}, case)
                        except Exception as e:
                            res.violation(f"unit-spelling-raised:{point_form}", {"s": text, "exc": repr(e)}, case)
    res.counters.update({"contract:" + k: v for k, v in K.COUNT.items()})
    res.counters.update({"unjudged-lenient:" + k: v for k, v in K.UNJUDGED.items()})
    res.sample({"Date": "0999-12-31", "near-miss": "PT1.5S", "colour": "#00FF7F"})


def replay(case):
    K.install()
    F = _codec_fns()
    name = case["codec"]
    out = []
    if name == "Unit-arg":
        import re as _re
        from decimal import Decimal as _D

        from odfdo.datatype import Unit

        a = case["arg"]
        v = eval(a["v"], {"Decimal": _D})  # repr of an int / float / Decimal / str written by this module
        u = Unit(v, a["unit"]) if not isinstance(v, str) else Unit(v + a["unit"])
        if not _re.match(r"-?([0-9]+(\.[0-9]*)?|\.[0-9]+)(cm|mm|in|pt|pc|px|em|%)\Z", str(u)):
            out.append({"mechanism": "unit-not-an-odf-length", "detail": {"str": str(u)}})
        return out
    arg = _deser(case["arg"])
    if name == "Unit-spelling":
        from decimal import Decimal
        from odfdo.datatype import Unit
        import re as _re

        m = _re.match(r"(-?)([0-9]*)\.?([0-9]*)([a-z%]+)\Z", arg)
        want = Decimal(f"{m.group(1)}{m.group(2) or '0'}.{m.group(3) or '0'}")
        u = Unit(arg)
        if u.value != want or u.unit != m.group(4):
            out.append({"mechanism": "unit-spelling-decoded-wrong", "detail": {"s": arg, "value": str(u.value), "unit": u.unit}})
        return out
    if name == "Unit":
        from odfdo.datatype import Unit

        if str(Unit(arg)) != arg:
            out.append({"mechanism": "unit-roundtrip", "detail": {"s": arg, "back": str(Unit(arg))}})
        return out
    if name not in F:
        return out
    try:
        r = F[name](arg)
        if name.endswith(".encode"):
            F[name.replace("encode", "decode")](r)
    except K.ContractBroken as e:
        out.append({"mechanism": "contract:" + e.witness.get("contract", name), "detail": e.witness})
    except Exception:
        pass
    return out


MANIFEST = {
    "text": "Exploration by runtime monitoring with contracts: icontract post-conditions are installed on the real codec functions (exact inverse, lexical form per an independent regular expression, value per an independent computation) and driven over boundary lattices that are enumerated completely (every day of 8 boundary years, the time/zone lattice, every second of +-2 days in the thorough tier, all 24-bit colours in the thorough tier, all CSS names) plus random values and one-edit near-miss strings for the decoders. Held = no contract broken on the evaluations counted.",
    "note": "Trusted: vf/oracles/lex.py (lexical spaces and independent value computation), the frozen CSS3 table, Python's datetime constructors. Lenient ISO-8601 acceptance by Python's parser is judged by value, not indicted.",
    "technique": "runtime monitoring: icontract post-conditions on the real functions over enumerated boundary lattices, random values and mutated strings",
}
