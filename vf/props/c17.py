"""C17 - whole-table transformations preserve the content they are not meant to remove.

Monitor shape: laws checked around each transformation on three readings of the table (live
get_values, and value/style/span census taken by O-TABXML on the serialisation)."""

import io

from .. import tablelab as TL
from ..oracles import tabxml

LEVEL = "exploration"
RULE = (
    "Tables from run-length recipes with ragged rows, styled empty cells, trailing empty cells/rows, repeated "
    "last rows and existing spans; compositions of 1-5 of {transpose(), transpose(square area), rstrip, "
    "rstrip(aggressive), optimize_width, set_span(area, merge F/T, incl. overlapping and beyond-edge areas), "
    "del_span(origin|non-origin), to_csv->import_from_csv}. Laws per step: transpose: new[y][x]==old[x][y] and "
    "twice = identity (modulo trailing empties); strip/optimize: every non-empty value, every span and covered "
    "cell keeps its coordinates, (rstrip non-aggressive) every styled cell too, size never grows, applying it "
    "again leaves the XML byte-identical; set_span: refused (False, byte-identical) iff one cell or overlap, "
    "else covered == rectangle minus origin, origin carries the spans, values unchanged unless merge; "
    "del_span restores values, removes exactly that span's covered cells; CSV: values equal under None==''. "
    "After every step live get_values == O-TABXML expansion. One evaluation = one transformation judged. "
    "Class = (transformation, shape flags of the table: ragged, repeated last row, styled empties, trailing "
    "empties, span present, outcome)."
)
SHARDS = {"quick": 16, "thorough": 16}
TIMEOUT = {"quick": 300, "thorough": 7200}
MIN_EVALS = {"quick": 8000, "thorough": 200000}
CASES = {"quick": 260, "thorough": 20000}
ASSUMPTIONS = [
    "transpose of a non-square sub-area is documented as lossy and is not generated; transposition of span attributes is not judged",
    "CSV round trip is judged on tables with >= 2 columns and values whose text does not parse as another type (the loss CSV itself imposes)",
]
REACH = [
    ("odfdo.table", "Table.transpose", True),
    ("odfdo.table", "Table.rstrip", True),
    ("odfdo.row", "Row.rstrip", True),
    ("odfdo.table", "Table.optimize_width", True),
    ("odfdo.table", "Table._optimize_width_trim_rows", True),
    ("odfdo.row", "Row.force_width", True),
    ("odfdo.row", "Row.minimized_width", True),
    ("odfdo.table", "Table.set_span", True),
    ("odfdo.table", "Table.del_span", True),
    ("odfdo.table", "Table.to_csv", True),
    ("odfdo.table", "import_from_csv", True),
    ("odfdo.table", "_get_python_value", True),
    ("odfdo.cell", "Cell.is_empty", True),
]


def gen_recipe(rng, vals):
    nrows = rng.randint(1, 5)
    rows = []
    flags = set()
    for i in range(nrows):
        cells = []
        for _ in range(rng.randint(0 if rng.random() < 0.2 else 1, 4)):
            r = rng.choice([1, 1, 1, 2, 3])
            v = vals.new(rng, 0.25)
            c = {"v": v, "r": r}
            if v is None and rng.random() < 0.4:
                c["style"] = rng.choice(["ce1", "ce2"])
                flags.add("styled-empty")
            elif v is not None and rng.random() < 0.15:
                c["style"] = "ce3"
            cells.append(c)
        if rng.random() < 0.35:  # trailing empties
            k = {"v": None, "r": rng.choice([1, 2, 5])}
            if rng.random() < 0.5:
                k["style"] = "ce1"
                flags.add("styled-empty")
            cells.append(k)
            flags.add("trailing-empty")
        rows.append({"r": rng.choice([1, 1, 2, 3]), "cells": cells})
    if rng.random() < 0.35:
        rows.append({"r": rng.choice([1, 2, 4]), "cells": [] if rng.random() < 0.5 else [{"v": None, "r": rng.choice([1, 3])}]})
        flags.add("trailing-empty-rows")
    if rows[-1]["r"] > 1:
        flags.add("repeated-last-row")
    widths = [sum(c["r"] for c in r["cells"]) for r in rows]
    if len(set(widths)) > 1:
        flags.add("ragged")
    W = max(1, max(widths)) + rng.choice([0, 0, 1, 2])
    cols, left = [], W
    while left > 0:
        r = min(left, rng.choice([1, 2, left]))
        cols.append(r)
        left -= r
    if rng.random() < 0.25:
        # integers a double cannot hold exactly (long identifiers, 64-bit keys)
        cells = [c for r in rows for c in r["cells"] if c["v"] is not None]
        for c in rng.sample(cells, min(len(cells), 2)):
            c["v"] = rng.choice([2**53 + 1, 9007199254740993, -(2**53) - 1, 2**64 + 1, 12345678901234567891, 10**30 + 7])
        if cells:
            flags.add("big-int")
    if rng.random() < 0.25:
        # text a CSV writer has to quote: line breaks inside the cell, the delimiter, quotes
        cells = [c for r in rows for c in r["cells"] if c["v"] is not None]
        for c in rng.sample(cells, min(len(cells), 2)):
            # (no double quote inside the values: whether "" is an escaped quote is guessed by the sniffer and
            # cannot be stated through import_from_csv)
            c["v"] = rng.choice(["first line\nsecond line", "a,b;c", "multi\n\nline\ntext", "trailing,", "semi;colon, comma"])
        if cells:
            flags.add("quoted-text")
    return {"cols": cols, "rows": rows}, flags


class Snap:
    def __init__(self, t):
        self.xml = t.serialize(with_ns=True)
        full = tabxml.expand_full(tabxml.parse(self.xml))
        self.W, self.rows = full
        self.H = len(self.rows)
        self.vals, self.styled, self.spans, self.covered = {}, {}, {}, set()
        for y, row in enumerate(self.rows):
            for x, c in enumerate(row):
                if c["v"] is not None and c["v"] != "":
                    self.vals[(x, y)] = c["v"]
                if c["style"] is not None:
                    self.styled[(x, y)] = c["style"]
                if c["cspan"] is not None or c["rspan"] is not None:
                    self.spans[(x, y)] = (int(c["cspan"] or 1), int(c["rspan"] or 1))
                if c["covered"]:
                    self.covered.add((x, y))
        self.live = [list(r) for r in t.get_values()]
        self.size = tuple(t.size)
        # the same table seen cell by cell through coordinates (this route keeps row wrappers in a cache):
        # the last three rows, every span origin and a diagonal
        probe = {(x, y) for y in range(max(self.H - 3, 0), self.H) for x in range(min(self.W, 6))}
        probe |= set(list(self.spans)[:6]) | set(list(self.covered)[:6]) | {(i, i) for i in range(min(self.W, self.H, 4))}
        self.coord = {}
        for x, y in sorted(probe):
            if x < self.W and y < self.H:
                try:
                    c = t.get_cell((x, y))
                    self.coord[(x, y)] = (t.get_value((x, y)), bool(c.is_spanned()))
                except Exception as e:
                    self.coord[(x, y)] = ("raised", repr(e))

    def live_agrees(self):
        exp = [[c["v"] for c in row] + [None] * (self.W - len(row)) for row in self.rows]
        if self.size != (self.W, self.H):
            return f"size live {self.size} xml {(self.W, self.H)}"
        if any(len(r) > self.W for r in self.rows):
            return "row wider than declared columns"
        if not TL.matrix_equal(self.live, exp):
            return "get_values differs from the XML expansion"
        for (x, y), (v, sp) in self.coord.items():
            row = self.rows[y]
            c = row[x] if x < len(row) else {"v": None, "cspan": None, "rspan": None, "covered": False}
            if v == "raised":
                return f"get_cell/get_value({x},{y}) raised {sp}"
            if not TL.values_equal(v, c["v"]):
                return f"get_value(({x},{y})) = {v!r}, the XML holds {c['v']!r}"
            xsp = bool(c["cspan"] is not None or c["rspan"] is not None or c["covered"])
            if sp != xsp:
                return f"get_cell(({x},{y})).is_spanned() = {sp}, the XML says {xsp}"
        return None


def same_vals(a, b):
    if a.keys() != b.keys():
        return False
    return all(TL.values_equal(a[k], b[k]) for k in a)


def diff_vals(a, b):
    out = {}
    for k in set(a) | set(b):
        if k not in a or k not in b or not TL.values_equal(a[k], b[k]):
            out[str(k)] = [a.get(k), b.get(k)]
    return dict(list(out.items())[:8])


OPS = ["transpose", "transpose_area", "rstrip", "rstrip_aggressive", "optimize_width", "set_span", "set_span_merge", "del_span", "csv", "foreign_span_form"]


def gen_op(rng, s: Snap):
    name = rng.choice(OPS)
    W, H = max(s.W, 1), max(s.H, 1)
    if name == "transpose_area":
        n = rng.randint(1, max(1, min(W, H, 4)))
        x = rng.randint(0, max(W - n, 0))
        y = rng.randint(0, max(H - n, 0))
        return {"op": name, "area": [x, y, x + n - 1, y + n - 1]}
    if name in ("set_span", "set_span_merge"):
        if s.spans and rng.random() < 0.3:  # aim at an overlap
            (ox, oy), (cs, rs) = rng.choice(sorted(s.spans.items()))
            x = max(0, ox + rng.randint(-1, cs - 1))
            y = max(0, oy + rng.randint(-1, rs - 1))
        else:
            x = rng.randint(0, W)
            y = rng.randint(0, H)
        z = x + rng.choice([0, 1, 1, 2])
        tt = y + rng.choice([0, 1, 1, 2])
        area = [x, y, z, tt]
        return {"op": name, "area": area if rng.random() < 0.6 else f"{TL.alpha(x)}{y + 1}:{TL.alpha(z)}{tt + 1}", "rect": area}
    if name == "del_span":
        if s.spans and rng.random() < 0.7:
            x, y = rng.choice(sorted(s.spans))
        else:
            x, y = rng.randint(0, W), rng.randint(0, H)
        # every documented way of naming the span: its upper left cell, or an area whose upper left cell is used
        # (the area need not be the span's own: smaller, larger, a single cell written as an area)
        return {"op": name, "at": [x, y], "form": rng.choice(["tuple", "tuple", "str", "area-one-cell", "area-str-one-cell", "area-larger", "list"])}
    return {"op": name}


def apply_and_judge(t, op, before: Snap):
    """-> (list of (mechanism, detail), outcome tag, new table or None)"""
    from odfdo.table import import_from_csv

    o = op["op"]
    out = []
    outcome = "done"
    newt = None
    if o == "transpose":
        if before.spans or before.covered:
            return out, "skipped-span", None
        t.transpose()
        a = Snap(t)
        exp = {(y, x): v for (x, y), v in before.vals.items()}
        if not same_vals(a.vals, exp):
            out.append(("transpose:values", {"diff": diff_vals(exp, a.vals)}))
        t.transpose()
        b = Snap(t)
        if not same_vals(b.vals, before.vals):
            out.append(("transpose-twice:not-identity", {"diff": diff_vals(before.vals, b.vals)}))
    elif o == "transpose_area":
        x, y, z, tt = op["area"]
        if before.spans or before.covered or z >= before.W or tt >= before.H:
            return out, "skipped", None
        t.transpose(tuple(op["area"]))
        a = Snap(t)
        exp = dict(before.vals)
        for yy in range(y, tt + 1):
            for xx in range(x, z + 1):
                exp.pop((xx, yy), None)
        for (xx, yy), v in before.vals.items():
            if x <= xx <= z and y <= yy <= tt:
                exp[(x + (yy - y), y + (xx - x))] = v
        if not same_vals(a.vals, exp):
            out.append(("transpose(area):values", {"diff": diff_vals(exp, a.vals), "area": op["area"]}))
        t.transpose(tuple(op["area"]))
        b = Snap(t)
        if not same_vals(b.vals, before.vals):
            out.append(("transpose(area)-twice:not-identity", {"diff": diff_vals(before.vals, b.vals), "area": op["area"]}))
    elif o in ("rstrip", "rstrip_aggressive", "optimize_width"):
        def f():
            if o == "optimize_width":
                t.optimize_width()
            else:
                t.rstrip(aggressive=(o == "rstrip_aggressive"))

        f()
        a = Snap(t)
        if not same_vals(a.vals, before.vals):
            out.append((f"{o}:non-empty-value-moved-or-lost", {"diff": diff_vals(before.vals, a.vals)}))
        if a.spans != before.spans or a.covered != before.covered:
            out.append((f"{o}:span-changed", {"spans_before": sorted(before.spans.items()), "spans_after": sorted(a.spans.items()), "covered_lost": sorted(before.covered - a.covered)[:6]}))
        if o == "rstrip" and a.styled != before.styled:
            out.append((f"{o}:styled-cell-removed", {"lost": sorted(set(before.styled) - set(a.styled))[:6]}))
        if a.W > before.W or a.H > before.H:
            out.append((f"{o}:table-grew", {"before": [before.W, before.H], "after": [a.W, a.H]}))
        f()
        b = Snap(t)
        if b.xml != a.xml:
            out.append((f"{o}:not-idempotent", {"first": a.xml[-400:], "second": b.xml[-400:]}))
        outcome = "shrunk" if (a.W, a.H) != (before.W, before.H) else "same-size"
    elif o in ("set_span", "set_span_merge"):
        x, y, z, tt = op["rect"]
        rect = {(xx, yy) for xx in range(x, z + 1) for yy in range(y, tt + 1)}
        occupied = set(before.covered)
        for (ox, oy), (cs, rs) in before.spans.items():
            occupied |= {(ox + i, oy + j) for i in range(cs) for j in range(rs)}
        expect_ok = len(rect) > 1 and not (rect & occupied)
        area = tuple(op["area"]) if isinstance(op["area"], list) else op["area"]
        r = t.set_span(area, merge=(o == "set_span_merge"))
        a = Snap(t)
        if bool(r) != expect_ok:
            out.append((f"set_span:{'accepted-overlap-or-single' if r else 'refused-free-area'}", {"area": op["rect"], "returned": r, "spans": sorted(before.spans.items())}))
        elif not r:
            outcome = "refused"
            if a.xml != before.xml:
                out.append(("set_span:refused-but-changed", {"area": op["rect"]}))
        else:
            outcome = "spanned"
            if a.covered != before.covered | (rect - {(x, y)}):
                out.append(("set_span:covered-cells-wrong", {"area": op["rect"], "extra": sorted(a.covered - before.covered - rect)[:6], "missing": sorted((rect - {(x, y)}) - a.covered)[:6]}))
            exp_spans = dict(before.spans)
            exp_spans[(x, y)] = (z - x + 1, tt - y + 1)
            if a.spans != exp_spans:
                out.append(("set_span:span-attributes-wrong", {"expected": sorted(exp_spans.items()), "got": sorted(a.spans.items())}))
            if o == "set_span":
                if not same_vals(a.vals, before.vals):
                    out.append(("set_span:values-changed-without-merge", {"diff": diff_vals(before.vals, a.vals), "area": op["rect"]}))
            else:
                outside_b = {k: v for k, v in before.vals.items() if k not in rect}
                outside_a = {k: v for k, v in a.vals.items() if k not in rect}
                if not same_vals(outside_a, outside_b):
                    out.append(("set_span(merge):values-outside-changed", {"diff": diff_vals(outside_b, outside_a)}))
    elif o == "del_span":
        x, y = op["at"]
        form = op.get("form", "tuple")
        arg = {
            "tuple": (x, y),
            "list": [x, y],
            "str": f"{TL.alpha(x)}{y + 1}",
            "area-one-cell": (x, y, x, y),
            "area-str-one-cell": f"{TL.alpha(x)}{y + 1}:{TL.alpha(x)}{y + 1}",
            "area-larger": (x, y, x + 7, y + 7),
        }[form]
        r = t.del_span(arg)
        a = Snap(t)
        is_origin = (x, y) in before.spans
        if bool(r) != is_origin:
            out.append(("del_span:wrong-return", {"at": [x, y], "returned": r, "is_origin": is_origin}))
        elif not r:
            outcome = "not-a-span"
            if a.xml != before.xml:
                out.append(("del_span:refused-but-changed", {"at": [x, y]}))
        else:
            outcome = "deleted"
            cs, rs = before.spans[(x, y)]
            rect = {(x + i, y + j) for i in range(cs) for j in range(rs)}
            exp_sp = dict(before.spans)
            del exp_sp[(x, y)]
            if a.spans != exp_sp or a.covered != before.covered - rect:
                out.append(("del_span:span-not-removed-exactly", {"at": [x, y], "covered_left": sorted(a.covered & rect)[:6], "spans": sorted(a.spans.items())}))
            if not same_vals(a.vals, before.vals):
                out.append(("del_span:values-changed", {"diff": diff_vals(before.vals, a.vals)}))
    elif o == "foreign_span_form":
        # the same spans as another producer writes them: a span count of 1 is the default and is left out
        # (a head may carry only number-rows-spanned, or only number-columns-spanned)
        TNS = "{urn:oasis:names:tc:opendocument:xmlns:table:1.0}"
        n_changed = 0
        for cell in t._Element__element.iter(TNS + "table-cell"):
            cs, rs = cell.get(TNS + "number-columns-spanned"), cell.get(TNS + "number-rows-spanned")
            if cs == "1" and rs not in (None, "1"):
                del cell.attrib[TNS + "number-columns-spanned"]
                n_changed += 1
            elif rs == "1" and cs not in (None, "1"):
                del cell.attrib[TNS + "number-rows-spanned"]
                n_changed += 1
        a = Snap(t)
        if a.spans != before.spans or a.covered != before.covered or not same_vals(a.vals, before.vals):
            out.append(("harness:foreign-span-form-changed-the-census", {}))
        outcome = "rewritten" if n_changed else "nothing-to-rewrite"
    elif o == "csv":
        if before.spans or before.covered or before.W < 2 or before.H < 1 or not before.vals:
            return out, "skipped", None
        text = t.to_csv()
        quoted = any(isinstance(v, str) and any(ch in v for ch in '\n,;"') for v in before.vals.values())
        # "CSV format can be autodetected to a certain limit": with text the writer had to quote, the dialect
        # that to_csv used is stated instead of sniffed
        t2 = import_from_csv(io.StringIO(text), "imported", delimiter=",", quotechar='"') if quoted else import_from_csv(io.StringIO(text), "imported")
        b = Snap(t2)
        norm = {k: (v.strip() if isinstance(v, str) else v) for k, v in before.vals.items()}
        norm = {k: v for k, v in norm.items() if v != ""}
        if not same_vals(b.vals, norm):
            out.append(("csv-roundtrip:values", {"diff": diff_vals(norm, b.vals), "csv": text[:300]}))
        newt = None
    else:
        raise KeyError(o)
    return out, outcome, newt


def run_case(case, res, gen=None):
    """case = {"recipe":…, "ops":[…]} ; gen=(rng, nops) to generate ops."""
    t = TL.build_table(case["recipe"])
    flags = set(case.get("flags", []))
    ops = case.setdefault("ops", [])
    n = len(ops) if gen is None else gen[1]
    for i in range(n):
        before = Snap(t)
        msg = before.live_agrees()
        if msg:
            return [("live-vs-xml:" + (ops[i - 1]["op"] if i else "init"), {"why": msg, "step": i})]
        if gen is not None:
            ops.append(gen_op(gen[0], before))
        op = ops[i]
        try:
            v, outcome, _ = apply_and_judge(t, op, before)
        except Exception as e:
            import traceback

            v, outcome = [(f"raised:{op['op']}:{type(e).__name__}", {"exc": repr(e), "tb": traceback.format_exc()[-1200:]})], "raised"
        if res is not None:
            res.judge()
            f = set(flags)
            if before.spans:
                f.add("span")
            res.cls((op["op"], "+".join(sorted(f)) or "plain", outcome), True)
        if v:
            for m, d in v:
                d["step"] = i
                d["op"] = op
                d["table_before"] = before.xml[-700:]
            return v
    end = Snap(t)
    msg = end.live_agrees()
    if msg:
        return [("live-vs-xml:" + (ops[-1]["op"] if ops else "init"), {"why": msg, "step": n})]
    return None


def run(ctx, res):
    for c in range(CASES[ctx.tier]):
        rng = ctx.rng(c)
        vals = TL.Vals()
        recipe, flags = gen_recipe(rng, vals)
        case = {"recipe": recipe, "flags": sorted(flags)}
        v = run_case(case, res, gen=(rng, rng.randint(1, 5)))
        if c < 2:
            res.sample({"recipe": recipe, "ops": case["ops"]})
        if v:
            m, d = v[0]
            res.violation(m, d, {"case": case})
        res.count("compositions")


def replay(case):
    v = run_case(case["case"], None, gen=None)
    return [{"mechanism": m, "detail": d} for m, d in (v or [])]


MANIFEST = {
    "text": "Exploration by runtime monitoring: generated tables (ragged, styled empties, trailing empties, repeated last rows, spans) are driven through random compositions of the whole-table transformations; around every transformation a law monitor compares value, style and span censuses taken by an independent lxml expansion of the serialisation before and after (transpose involution, strip/optimize preservation and idempotence, span exactness/refusal/restoration, CSV round trip), and checks live get_values, and get_value / get_cell().is_spanned() by coordinates on the last rows, span origins and a diagonal, against the expansion. Held = no law broken on the compositions observed.",
    "note": "Trusted: vf/oracles/tabxml.py expand_full; the stated laws (DESIGN C17). Non-square area transposes (documented lossy) and CSV-ambiguous values are not generated.",
    "technique": "runtime monitoring: before/after law monitors over an independent census of the produced XML",
}
