"""C05 - paragraph text round-trips exactly and the XML is in ODF white-space normal form.

Monitor shape: independent reader of the artefact (O-TEXT interprets the serialisation the way
an ODF consumer does) + icontract post-condition on the leaf Paragraph._sub_merge_spaces."""

import itertools
import re

import icontract

from ..oracles import odftext

LEVEL = "exploration"
RULE = (
    "Strings over the core alphabet {a, SPACE, TAB, LF}: ALL strings up to length 6 (quick, 5461) / 8 "
    "(thorough, 87381), each built as Paragraph, Header and Span by the constructor and by every 2-way split "
    "into constructor+append (and random 3-way splits through append_plain_text/append); random strings to "
    "length 40 over the core alphabet plus e-acute, <, &, \", NBSP, U+2009, U+3000, an astral character; "
    "formatted=False variants (expected text = [ \\t\\n]+ -> ' '); token strings mixing space runs of length "
    "1..1001 chosen on the digit boundaries of the text:c counter (9/10/11, 19/20/21, 99/100/101, 999/1000), also "
    "accumulated one append at a time, with text that looks like markup (name-space and attribute declarations, "
    "entities, CDATA, comments). One evaluation = one built element judged by "
    "inner_text == s, re-parse (of serialize(with_ns=True) and of the default serialize()) inner_text == s, O-TEXT(serialisation) == s, no raw TAB/CR/LF in text nodes, "
    "text:c well-formed. Class = (element class, build route, run-shape abstraction of the string: leading/"
    "inner/trailing space-run lengths {1,2,3+}, TAB/LF adjacency, split inside a space run)."
)
SHARDS = {"quick": 16, "thorough": 16}
TIMEOUT = {"quick": 300, "thorough": 3600}
MIN_EVALS = {"quick": 60000, "thorough": 2000000}
EXHAUSTIVE = {"quick": True, "thorough": True}
ASSUMPTIONS = [
    "the element's 'text' is Element.inner_text; the consumer's reading is vf/oracles/odftext.py (ODF 1.2 part 1, 6.1.2 as LibreOffice implements it)",
    "CR and C0 control characters are outside the stated alphabet (XML cannot carry most of them) and are not generated",
]
REACH = [
    ("odfdo.paragraph", "Paragraph._expand_spaces", True),
    ("odfdo.paragraph", "Paragraph._merge_spaces", True),
    ("odfdo.paragraph", "Paragraph._sub_merge_spaces", True),
    ("odfdo.paragraph", "Paragraph._replace_tabs_lb", True),
    ("odfdo.paragraph", "Paragraph._sub_replace_tabs_lb", True),
    ("odfdo.paragraph", "Paragraph.append_plain_text", True),
    ("odfdo.paragraph_base", "Spacer.length", True),
    ("odfdo.element", "Element._add_text", False),
]

CORE = ["a", " ", "\t", "\n"]
UNNORMALISED = ["e\u0301", "\u212b", "\u2126", "\u1100\u1161", "\u0958", "\u00e9\u0301", "A\u030a", "\ufb01", "\u1e9b\u0323"]
EXTRA = ["e\u0301", "\u212b", "é", "<", "&", '"', " ", " ", "　", "\U0001f600", "b", "'", ">"]


RUNS = [1, 2, 3, 8, 9, 10, 11, 12, 19, 20, 21, 22, 99, 100, 101, 102, 120, 999, 1000, 1001]
MARKUP_LIKE = [
    ' xmlns:a="http://x.org/a"', ' xmlns:b="a b"', 'xmlns:c="urn:x"', ' xmlns:text="urn:oasis:names:tc:opendocument:xmlns:text:1.0"', ' xmlns:d=""',
    ' text:c="3"', '<text:s/>', "&amp;", "&#32;", "&lt;a&gt;", "<!-- x -->", "]]>", "<![CDATA[ x ]]>", '="', "'>", " xmlns:e='u'",
]


class ContractBroken(Exception):
    pass


_K = {"n": 0, "last": None}


def sub_merge_spaces_post(text, result):
    """Decoding the pieces gives back the argument; pieces are in normal form."""
    _K["n"] += 1
    _K["last"] = (text, [getattr(r, "tag", r) for r in result])
    out = []
    for i, item in enumerate(result):
        if isinstance(item, str):
            if "  " in item:
                return False
            out.append(item)
        else:
            if item.tag != "text:s":
                return False
            out.append(" " * (item.length or 1))
    return "".join(out) == text


def install_contract():
    from odfdo.paragraph import Paragraph

    fn = Paragraph.__dict__["_sub_merge_spaces"]
    if getattr(fn, "_vf", False):
        return
    inner = fn.__func__ if isinstance(fn, staticmethod) else fn
    wrapped = icontract.ensure(sub_merge_spaces_post, error=ContractBroken)(inner)
    sm = staticmethod(wrapped)
    Paragraph._sub_merge_spaces = sm
    Paragraph.__dict__["_sub_merge_spaces"]  # noqa: B018
    try:
        sm._vf = True
    except Exception:
        pass


def shape(s):
    """Run-shape abstraction of a string."""
    toks = []
    for m in re.finditer(r" +|\t|\n|[^ \t\n]+", s):
        g = m.group()
        if g[0] == " ":
            n = len(g)
            toks.append("s" + ("1" if n == 1 else "2" if n == 2 else "3+" if n < 10 else "10+" if n < 20 else "20+" if n < 100 else "100+"))
        elif g == "\t":
            toks.append("T")
        elif g == "\n":
            toks.append("N")
        else:
            kinds = set()
            for ch in g:
                if ch in "<&\"'>:=":
                    kinds.add("x")
                elif ord(ch) > 127:
                    kinds.add("u" if not ch.isspace() else "w")
                else:
                    kinds.add("a")
            toks.append("".join(sorted(kinds)))
    # compress repeats of the same pair to keep the class space finite
    out = []
    for t in toks:
        if len(out) >= 2 and out[-2:] == [out[-1], t]:
            continue
        out.append(t)
    return ".".join(out[:9]) + ("+" if len(out) > 9 else "")


def make(kind, text, formatted=True):
    from odfdo import Header, Paragraph, Span

    if kind == "Paragraph":
        return Paragraph(text, formatted=formatted) if not formatted else Paragraph(text)
    if kind == "Header":
        return Header(1, text, formatted=formatted) if not formatted else Header(1, text)
    return Span(text, formatted=formatted) if not formatted else Span(text)


def judge(el, expected):
    """-> list of (mechanism, detail) for one built element."""
    from odfdo import Element

    out = []
    it = el.inner_text
    if it != expected:
        out.append(("inner_text", {"got": it}))
    xml = el.serialize(with_ns=True)
    back = Element.from_tag(xml)
    if type(back) is not type(el):
        out.append(("reparse-class", {"got": type(back).__name__}))
    elif back.inner_text != expected:
        out.append(("reparse-inner_text", {"got": back.inner_text}))
    # the default serialisation (name-space declarations removed) is re-parsed too
    plain = el.serialize()
    try:
        back2 = Element.from_tag(plain)
        if back2.inner_text != expected:
            out.append(("reparse-serialize()", {"got": back2.inner_text, "xml": plain[-300:]}))
    except Exception as e:
        out.append(("reparse-serialize()-raised", {"exc": repr(e), "xml": plain[-300:]}))
    tree = odftext.parse(xml)
    proj = odftext.project(tree)
    if proj != expected:
        out.append(("consumer-reading", {"got": proj, "xml": xml[-300:]}))
    issues = odftext.normal_form_issues(tree)
    if issues:
        out.append(("normal-form", {"issues": issues, "xml": xml[-300:]}))
    return out


def build_and_judge(res, kind, pieces, route, formatted=True):
    """pieces: list of strings; route: 'ctor', 'append', 'append_plain_text'."""
    s = "".join(pieces)
    expected = s if formatted else re.sub(r"[ \t\n]+", " ", "".join(pieces)) if len(pieces) == 1 else None
    case = {"kind": kind, "pieces": pieces, "route": route, "formatted": formatted}
    try:
        el = make(kind, pieces[0], formatted)
        for p in pieces[1:]:
            if route == "append_plain_text":
                el.append_plain_text(p)
            else:
                el.append(p) if formatted else el.append(p, formatted=False)
        if not formatted and len(pieces) > 1:
            # each piece is unformatted on its own, then the result is kept compliant
            expected = "".join(re.sub(r"[ \t\n]+", " ", p) for p in pieces)
        v = judge(el, expected)
    except ContractBroken:
        v = [("contract:_sub_merge_spaces", {"last": _K["last"]})]
    except Exception as e:
        import traceback

        v = [(f"raised:{type(e).__name__}", {"exc": repr(e), "tb": traceback.format_exc()[-800:]})]
    res.judge()
    split_in_run = any(a.endswith(" ") and b.startswith(" ") for a, b in zip(pieces, pieces[1:]))
    res.cls((kind, route + ("" if formatted else "-unformatted"), shape(s), "split-in-run" if split_in_run else ""), True)
    for m, d in v:
        d["expected"] = expected
        d["pieces"] = pieces
        res.violation(f"{m}:{kind}:{route}", d, case)
    return not v


def run(ctx, res):
    install_contract()
    maxlen = 6 if ctx.quick else 8
    idx = 0
    for n in range(0, maxlen + 1):
        for tup in itertools.product(CORE, repeat=n):
            idx += 1
            if not ctx.mine(idx):
                continue
            s = "".join(tup)
            for kind in ("Paragraph", "Header", "Span"):
                build_and_judge(res, kind, [s], "ctor")
                if kind != "Paragraph" and n > 4 and (idx // ctx.nshards) % 3:
                    continue  # Header/Span share the code path: splits sampled 1 in 3 beyond length 4
                for k in range(0, n + 1):
                    build_and_judge(res, kind, [s[:k], s[k:]], "append")
            if n <= 5 and (idx // ctx.nshards) % 4 == 0:
                build_and_judge(res, "Paragraph", [s], "ctor", formatted=False)
    res.info["exhaustive"] = f"all strings over {{a,SPACE,TAB,LF}} up to length {maxlen}, every 2-way split"
    # characters with a canonical (de)composition: the string given is the string kept, code point for code point
    # (no Unicode normalisation: "e" + U+0301 is not U+00E9, ANGSTROM SIGN is not A WITH RING)
    if ctx.shard == 0:
        for tok in UNNORMALISED:
            for kind in ("Paragraph", "Header", "Span"):
                build_and_judge(res, kind, [tok], "ctor")
                for route in ("append", "append_plain_text"):
                    build_and_judge(res, kind, ["a" + tok, tok + " b"], route)
                    build_and_judge(res, kind, [tok[:1], tok[1:] + "\t" + tok], route)
    rng = ctx.rng("random")
    for i in range(1200 if ctx.quick else 200000):
        n = rng.randint(1, 40)
        alpha = CORE * 3 + EXTRA
        s = "".join(rng.choice(alpha) for _ in range(n))
        kind = rng.choice(["Paragraph", "Header", "Span"])
        cuts = sorted(rng.sample(range(n + 1), min(2, n + 1)))
        pieces = [s[: cuts[0]], s[cuts[0] : cuts[-1]], s[cuts[-1] :]]
        route = rng.choice(["append", "append_plain_text"])
        build_and_judge(res, kind, pieces, route)
        if i % 5 == 0:
            build_and_judge(res, kind, [s], "ctor")
        if i % 7 == 0:
            build_and_judge(res, kind, pieces[:2], "append", formatted=False)
        if i < 2:
            res.sample({"kind": kind, "pieces": pieces, "route": route})
    # strings assembled from tokens: space runs whose length sits on a digit boundary of the text:c counter,
    # and text that looks like markup (attribute and name-space declarations, entity look-alikes)
    rng = ctx.rng("tokens")
    for i in range(600 if ctx.quick else 100000):
        toks = []
        for _ in range(rng.randint(1, 6)):
            r = rng.random()
            if r < 0.4:
                toks.append(" " * rng.choice(RUNS))
            elif r < 0.6:
                toks.append(rng.choice(MARKUP_LIKE))
            elif r < 0.7:
                toks.append(rng.choice(["\t", "\n"]))
            else:
                toks.append(rng.choice(["a", "bc", "é", "x:y"]))
        s = "".join(toks)
        kind = rng.choice(["Paragraph", "Header", "Span"])
        build_and_judge(res, kind, [s], "ctor")
        k = rng.randrange(len(s) + 1)
        build_and_judge(res, kind, [s[:k], s[k:]], rng.choice(["append", "append_plain_text"]))
        if i % 3 == 0:  # a run accumulated one call at a time
            n = rng.choice(RUNS)
            build_and_judge(res, kind, ["a"] + [" "] * n + ["b"], "append")
    res.count("contract:_sub_merge_spaces", _K["n"])
    if _K["n"] == 0:
        raise RuntimeError("contract on _sub_merge_spaces was never evaluated")


def replay(case):
    from ..core import Res

    install_contract()
    res = Res()
    build_and_judge(res, case["kind"], case["pieces"], case["route"], case.get("formatted", True))
    return res.violations


MANIFEST = {
    "text": "Exploration by runtime monitoring, exhaustive on the small alphabet: every string over {a, SPACE, TAB, LF} up to length 6 (quick) / 8 (thorough) is built as Paragraph, Header and Span by the constructor and by every 2-way split into successive appends, plus random longer strings over a richer alphabet; each built element is read back through inner_text, through a re-parse, and by an independent ODF white-space interpreter applied to the serialisation (the normal-form check); an icontract post-condition guards the leaf _sub_merge_spaces. Held = all readings equal the input on everything built.",
    "note": "Trusted: vf/oracles/odftext.py as the consumer's white-space processing; lxml. CR and control characters are outside the stated alphabet.",
    "technique": "runtime monitoring: independent ODF white-space interpreter over the produced XML + icontract post-condition, exhaustive enumeration of the bounded alphabet",
}
