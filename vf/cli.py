"""./check Cxx [--tier quick|thorough] [--seed N] [--replay PATH] [--shards N] [-v]"""
import argparse
import os
import sys

from . import core


def main():
    ap = argparse.ArgumentParser()
    ap.add_argument("pid")
    ap.add_argument("--tier", default=os.environ.get("VERIF_TIER") or "quick", choices=["quick", "thorough"])
    ap.add_argument("--seed", type=int, default=int(os.environ.get("VERIF_SEED") or 0))
    ap.add_argument("--replay")
    ap.add_argument("--shards", type=int)
    ap.add_argument("-v", action="store_true")
    a = ap.parse_args()
    pid = a.pid.upper()
    if a.replay:
        sys.exit(core.run_replay(pid, a.replay))
    sys.exit(core.run_check(pid, a.tier, a.seed, verbose=a.v, shards=a.shards))


main()
