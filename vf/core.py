"""Runner core: contexts, result accumulation, sharding, verdicts, evidence.

Nothing in here knows about odfdo.  A property module (vf/props/cXX.py) exposes

    LEVEL      "exploration"
    RULE       str, how cases are generated and what non-trivial/distinct means
    SHARDS     {"quick": n, "thorough": n}
    TIMEOUT    {"quick": s, "thorough": s}   wall-clock watchdog per shard (inconclusive)
    MIN_EVALS  {"quick": n, "thorough": n}   fewer oracle evaluations => inconclusive
    REACH      [(module, qualname, required_bool), ...] anchored functions (vf.reach)
    ASSUMPTIONS [str]
    run(ctx, res)            one shard
    replay(case) -> list[dict]   re-execute one recorded case, return violations
"""

from __future__ import annotations

import hashlib
import importlib
import json
import os
import random
import re
import subprocess
import sys
import time
import traceback

VERIF = os.path.dirname(os.path.dirname(os.path.abspath(__file__)))
REPO = os.environ.get("VF_REPO", "/repo")
WORK = os.path.join(VERIF, ".work")


class Ctx:
    def __init__(self, pid, tier, seed, shard, nshards):
        self.pid = pid
        self.tier = tier
        self.seed = seed
        self.shard = shard
        self.nshards = nshards
        self.t0 = time.monotonic()

    def rng(self, *key):
        return random.Random(
            f"{self.seed}/{self.pid}/{self.shard}/" + "/".join(str(k) for k in key)
        )

    def elapsed(self):
        return time.monotonic() - self.t0

    @property
    def quick(self):
        return self.tier == "quick"

    def mine(self, i):
        """Static partition of an enumerated space over shards."""
        return i % self.nshards == self.shard


class Res:
    MAX_PER_MECH = 3

    def __init__(self):
        self.evals = 0
        self.classes: dict[str, int] = {}
        self.nontrivial: set[str] = set()
        self.samples: list = []
        self.violations: list[dict] = []
        self.viol_total = 0
        self.per_mech: dict[str, int] = {}
        self.counters: dict[str, int] = {}
        self.reach: dict = {}
        self.info: dict = {}

    def judge(self, n=1):
        self.evals += n

    def cls(self, key, nontrivial=True):
        key = key if isinstance(key, str) else "|".join(str(k) for k in key)
        self.classes[key] = self.classes.get(key, 0) + 1
        if nontrivial:
            self.nontrivial.add(key)

    def count(self, name, n=1):
        self.counters[name] = self.counters.get(name, 0) + n

    def sample(self, obj, cap=4):
        if len(self.samples) < cap:
            self.samples.append(obj)

    def violation(self, mechanism, detail, case, known=None):
        """mechanism: short stable string naming what went wrong (dedup key);
        known: id of the known-finding classifier that claims it, or None."""
        if "harness" in mechanism and _MISFIT.search(json.dumps(jsonable(detail), default=str)):
            # the instrumentation reaches for a private attribute the implementation no longer has: that says
            # nothing about the property - inconclusive, never a violation
            self.count("instrumentation_misfit")
            return
        self.viol_total += 1
        k = f"{known or ''}:{mechanism}"
        n = self.per_mech.get(k, 0)
        self.per_mech[k] = n + 1
        if n < self.MAX_PER_MECH:
            self.violations.append(
                {"mechanism": mechanism, "detail": detail, "case": case, "known": known}
            )

    def to_json(self):
        return {
            "evals": self.evals,
            "classes": self.classes,
            "nontrivial": sorted(self.nontrivial),
            "samples": self.samples,
            "violations": self.violations,
            "viol_total": self.viol_total,
            "per_mech": self.per_mech,
            "counters": self.counters,
            "reach": self.reach,
            "info": self.info,
        }


_MISFIT = re.compile(r"AttributeError[^\n]{0,200}?(_[A-Za-z]+__[a-z_]+|'_tmap'|'_cmap'|'_rmap'|'_indexes')")


def jsonable(o):
    """Best-effort conversion of witnesses to JSON."""
    import datetime
    import decimal

    if isinstance(o, (str, int, float, bool)) or o is None:
        return o
    if isinstance(o, decimal.Decimal):
        return f"Decimal({o})"
    if isinstance(o, (datetime.date, datetime.datetime, datetime.timedelta)):
        return repr(o)
    if isinstance(o, bytes):
        return o[:200].decode("latin-1")
    if isinstance(o, dict):
        return {str(k): jsonable(v) for k, v in o.items()}
    if isinstance(o, (list, tuple, set, frozenset)):
        return [jsonable(v) for v in o]
    return repr(o)[:500]


# --------------------------------------------------------------------------- known findings


def load_known():
    """Parse /verif/known_findings.txt -> ({(pid, fid): text}, [fixed lines])."""
    path = os.path.join(VERIF, "known_findings.txt")
    findings, fixed = {}, []
    if not os.path.exists(path):
        return findings, fixed
    for line in open(path, encoding="utf-8"):
        line = line.strip()
        if not line or line.startswith("#"):
            continue
        if line.startswith("finding:"):
            toks = line[len("finding:") :].split()
            kv = dict(t.split("=", 1) for t in toks[:3] if "=" in t)
            text = " ".join(t for t in toks if not t.startswith(("property=", "id=", "classifier=")))
            if "property" in kv and "id" in kv:
                findings[(kv["property"], kv["id"])] = text
        elif line.startswith("fixed:"):
            fixed.append(line)
    return findings, fixed


# --------------------------------------------------------------------------- shard side


def shard_main(argv):
    pid, tier, seed, shard, nshards, out = argv
    ctx = Ctx(pid, tier, int(seed), int(shard), int(nshards))
    res = Res()
    payload = {"ok": False}
    try:
        import odfdo

        if not os.path.abspath(odfdo.__file__).startswith(os.path.join(REPO, "src") + os.sep):
            raise ImportError(f"odfdo imported from {odfdo.__file__}, expected {REPO}/src")
    except BaseException as e:  # SyntaxError, ImportError ... of the tree under test
        payload = {"ok": False, "import_error": f"{type(e).__name__}: {e}"}
        json.dump(payload, open(out, "w"))
        return 0
    try:
        mod = importlib.import_module(f"vf.props.{pid.lower()}")
        from . import reach

        mon = reach.Reach(getattr(mod, "REACH", []))
        mon.start()
        try:
            mod.run(ctx, res)
        finally:
            mon.stop()
        res.reach = mon.report()
        payload = {"ok": True, "res": jsonable(res.to_json()), "wall": ctx.elapsed()}
    except BaseException:
        payload = {"ok": False, "crash": traceback.format_exc()[-4000:], "res": jsonable(res.to_json())}
    json.dump(payload, open(out, "w"))
    return 0


# --------------------------------------------------------------------------- parent side


def repo_state():
    st = {}
    try:
        st["head"] = subprocess.run(
            ["git", "-C", REPO, "rev-parse", "HEAD"], capture_output=True, text=True, timeout=20
        ).stdout.strip()
    except Exception:
        st["head"] = "?"
    h = hashlib.sha256()
    n = 0
    base = os.path.join(REPO, "src", "odfdo")
    for root, _dirs, files in sorted(os.walk(base)):
        for f in sorted(files):
            if f.endswith(".py"):
                p = os.path.join(root, f)
                h.update(p[len(base) :].encode())
                h.update(open(p, "rb").read())
                n += 1
    st["src_sha256"] = h.hexdigest()[:16]
    st["src_files"] = n
    return st


def run_check(pid, tier, seed, verbose=False, shards=None):
    t0 = time.monotonic()
    mod = importlib.import_module(f"vf.props.{pid.lower()}")
    n = shards or mod.SHARDS[tier]
    timeout = mod.TIMEOUT[tier]
    os.makedirs(WORK, exist_ok=True)
    rundir = os.path.join(WORK, f"{pid}-{tier}-{seed}-{os.getpid()}")
    os.makedirs(rundir, exist_ok=True)
    procs = []
    maxpar = int(os.environ.get("VF_PAR", "16"))
    pending = list(range(n))
    running = []
    results = {}
    reasons = []
    env = dict(os.environ)
    while pending or running:
        while pending and len(running) < maxpar:
            i = pending.pop(0)
            out = os.path.join(rundir, f"shard{i}.json")
            p = subprocess.Popen(
                [sys.executable, "-B", "-m", "vf.shard", pid, tier, str(seed), str(i), str(n), out],
                env=env,
                stdout=subprocess.DEVNULL,
                stderr=open(os.path.join(rundir, f"shard{i}.err"), "w"),
            )
            running.append((i, p, time.monotonic(), out))
        still = []
        for i, p, ts, out in running:
            rc = p.poll()
            if rc is None:
                if time.monotonic() - ts > timeout:
                    p.kill()
                    p.wait()
                    reasons.append(f"shard{i}-watchdog-{timeout}s")
                else:
                    still.append((i, p, ts, out))
                continue
            try:
                results[i] = json.load(open(out))
            except Exception:
                err = ""
                try:
                    err = open(os.path.join(rundir, f"shard{i}.err")).read()[-300:]
                except Exception:
                    pass
                reasons.append(f"shard{i}-died rc={rc} {err!r}")
        running = still
        if running:
            time.sleep(0.05)
    # merge
    evals = 0
    classes: dict[str, int] = {}
    nontrivial: set[str] = set()
    samples = []
    violations = []
    viol_total = 0
    per_mech: dict[str, int] = {}
    counters: dict[str, int] = {}
    reach: dict = {}
    info: dict = {}
    for i in sorted(results):
        r = results[i]
        if r.get("import_error"):
            reasons.append("import-error " + r["import_error"])
            continue
        if not r.get("ok"):
            reasons.append(f"shard{i}-crash " + r.get("crash", "")[-600:])
        rr = r.get("res")
        if not rr:
            continue
        evals += rr["evals"]
        for k, v in rr["classes"].items():
            classes[k] = classes.get(k, 0) + v
        nontrivial.update(rr["nontrivial"])
        if len(samples) < 8:
            samples.extend(rr["samples"][:2])
        for v in rr["violations"]:
            v["shard"] = i
            violations.append(v)
        viol_total += rr["viol_total"]
        for k, v in rr["per_mech"].items():
            per_mech[k] = per_mech.get(k, 0) + v
        for k, v in rr["counters"].items():
            counters[k] = counters.get(k, 0) + v
        for fn, d in rr["reach"].items():
            e = reach.setdefault(fn, {"calls": 0, "lines": set(), "resolved": d.get("resolved", False), "nlines": d.get("nlines", 0)})
            e["calls"] += d["calls"]
            e["lines"].update(d["lines"])
            e["resolved"] = e["resolved"] or d.get("resolved", False)
        for k, v in rr["info"].items():
            info.setdefault(k, v)
    # reach verdict
    reach_out = {}
    for m, q, required in getattr(mod, "REACH", []):
        fn = f"{m}:{q}"
        e = reach.get(fn)
        if e is None:
            reach_out[fn] = {"calls": 0, "lines_seen": 0}
            if required and not reasons:
                reasons.append(f"reach-missing {fn}")
            continue
        reach_out[fn] = {"calls": e["calls"], "lines_seen": len(e["lines"]), "lines_total": e["nlines"]}
        if required and (not e["resolved"] or e["calls"] == 0):
            reasons.append(f"reach-{'unresolved' if not e['resolved'] else 'never-called'} {fn}")
    if evals < mod.MIN_EVALS[tier]:
        reasons.append(f"too-few-evaluations {evals} < {mod.MIN_EVALS[tier]}")
    if len(nontrivial) < 2:
        reasons.append(f"too-few-distinct-classes {len(nontrivial)}")

    if counters.get("instrumentation_misfit"):
        reasons.append(f"instrumentation-misfit: {counters['instrumentation_misfit']} harness calls failed on a private attribute the tree no longer has")
    # classify
    findings, _fixed = load_known()
    unknown = []
    known_seen: dict[str, dict] = {}
    for v in violations:
        fid = v.get("known")
        if fid and (pid, fid) in findings:
            known_seen.setdefault(fid, v)
        else:
            unknown.append(v)
    # count unknown total from per_mech
    unknown_total = 0
    for k, cnt in per_mech.items():
        fid = k.split(":", 1)[0]
        if not (fid and (pid, fid) in findings):
            unknown_total += cnt
    not_reproduced = [fid for (p, fid) in findings if p == pid and fid not in known_seen]

    # output
    for fid, v in sorted(known_seen.items()):
        print(f"KNOWN-FINDING: property={pid} id={fid} {findings[(pid, fid)]}")
    replay_paths = []
    seen_mech = set()
    for v in unknown:
        if v["mechanism"] in seen_mech:
            continue
        seen_mech.add(v["mechanism"])
        if len(replay_paths) >= 8:
            break
        blob = json.dumps(v, sort_keys=True, default=str)
        hid = hashlib.sha1(blob.encode()).hexdigest()[:10]
        path = os.path.join(VERIF, "replays", f"{pid}-{hid}.json")
        json.dump(
            {"property": pid, "tier": tier, "seed": seed, "violation": v, "repo": repo_state()},
            open(path, "w"),
            indent=1,
            default=str,
        )
        replay_paths.append(path)
        print(f"VIOLATION property={pid} replay={path}")
        print(f"  mechanism: {v['mechanism']}")
        if verbose:
            print("  detail: " + json.dumps(v["detail"], default=str)[:1500])
    wall = time.monotonic() - t0
    top = sorted(classes.items(), key=lambda kv: -kv[1])
    ev = {
        "property_id": pid,
        "tier": tier,
        "seed": seed,
        "level": mod.LEVEL,
        "coverage": {
            "evaluations": evals,
            "distinct_nontrivial": len(nontrivial),
            "rule": mod.RULE,
            "samples": samples[:8] or ["<none>"],
            "distinct_classes_total": len(classes),
            "classes_most_frequent": dict(top[:12]),
            "classes_least_frequent": dict(top[-12:]),
            "counters": counters,
            "reach": reach_out,
            "shards": n,
            "exhaustive": bool(getattr(mod, "EXHAUSTIVE", {}).get(tier, False)),
            "known_findings_observed": {k: per_mech_count(per_mech, k) for k in known_seen},
            "known_findings_not_reproduced": not_reproduced,
            "violation_mechanisms": {k: c for k, c in per_mech.items() if k.split(":", 1)[0] not in known_seen},
            "inconclusive_reasons": reasons,
            "info": info,
            "repo": repo_state(),
        },
        "assumptions": getattr(mod, "ASSUMPTIONS", []),
        "wall_s": round(wall, 2),
        "violations": unknown_total,
    }
    evdir = os.path.join(VERIF, "evidence")
    if os.path.realpath(REPO) != "/repo":
        # sensitivity runs against a scratch copy never touch the committed evidence
        evdir = os.path.join(WORK, "alt-evidence")
        os.makedirs(evdir, exist_ok=True)
    json.dump(ev, open(os.path.join(evdir, f"{pid}.json"), "w"), indent=1, default=str)
    # clean rundir
    try:
        import shutil

        if not os.environ.get("VF_KEEP"):
            shutil.rmtree(rundir, ignore_errors=True)
    except Exception:
        pass
    status = "held"
    rc = 0
    if unknown:
        status, rc = "VIOLATED", 1
    elif reasons:
        status, rc = "inconclusive", 2
        for r in reasons[:6]:
            print(f"INCONCLUSIVE property={pid} reason={r[:400]}")
    print(
        f"{pid} {tier} seed={seed}: {status}; evaluations={evals} distinct_nontrivial={len(nontrivial)} "
        f"classes={len(classes)} violations={unknown_total} known={sorted(known_seen)} wall={wall:.1f}s"
    )
    return rc


def per_mech_count(per_mech, fid):
    return sum(c for k, c in per_mech.items() if k.split(":", 1)[0] == fid)


def run_replay(pid, path, verbose=True):
    mod = importlib.import_module(f"vf.props.{pid.lower()}")
    data = json.load(open(path))
    v = data.get("violation", data)
    out = mod.replay(v["case"])
    if not out:
        print(f"replay {path}: no violation reproduced on the current tree")
        return 0
    for o in out[:5]:
        print(f"VIOLATION property={pid} replay={path}")
        print("  mechanism: " + o["mechanism"])
        print("  detail: " + json.dumps(jsonable(o["detail"]), default=str)[:3000])
    return 1
