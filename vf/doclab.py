"""Document laboratory: corpus, O-PKG (independent package reader), O-XML helpers, in-memory
snapshots, generated documents and edit histories.  Used by C03, C04, C10, C11, C15."""

from __future__ import annotations

import base64
import io
import os
import re
import shutil
import tempfile
import zipfile

from lxml import etree

from .oracles import odftext, tabxml

REPO = os.environ.get("VF_REPO", "/repo")
SAMPLES = os.path.join(REPO, "tests", "samples")
TEMPLATES = ["text", "spreadsheet", "presentation", "drawing"]
XML_CLASS_PARTS = ["content.xml", "styles.xml", "meta.xml", "settings.xml", "META-INF/manifest.xml"]
MANIFEST = "META-INF/manifest.xml"
MNS = "urn:oasis:names:tc:opendocument:xmlns:manifest:1.0"
METANS = "urn:oasis:names:tc:opendocument:xmlns:meta:1.0"
ODF_MIMETYPES_PREFIX = "application/vnd.oasis.opendocument."

PNG = base64.b64decode(
    "iVBORw0KGgoAAAANSUhEUgAAAAEAAAABCAYAAAAfFcSJAAAADUlEQVR42mP8z8BQDwAEhQGAhKmMIQAAAABJRU5ErkJggg=="
)


def sample_files():
    out = []
    for f in sorted(os.listdir(SAMPLES)):
        if re.search(r"\.(od[tspg]|ot[tspg])$", f):
            out.append(f)
    return out


def declared_cells(path):
    """Largest declared logical table size (w*h) in content.xml, from attributes only."""
    try:
        with zipfile.ZipFile(path) as z:
            root = etree.fromstring(z.read("content.xml"))
    except Exception:
        return 0
    worst = 0
    for t in root.iter(tabxml.T + "table"):
        try:
            w, h = tabxml.logical_size(t)
        except Exception:
            continue
        worst = max(worst, max(w, 1) * max(h, 1))
    return worst


_big_cache: dict[str, int] = {}


def is_big(sample):
    if sample not in _big_cache:
        _big_cache[sample] = declared_cells(os.path.join(SAMPLES, sample))
    return _big_cache[sample] > 20000


# --------------------------------------------------------------------------- O-PKG


class Package:
    """Independent reading of a saved package (zip bytes, zip path or folder)."""

    def __init__(self, src):
        self.order: list[str] = []
        self.compress: dict[str, int] = {}
        self.parts: dict[str, bytes] = {}
        self.dirs: set[str] = set()
        self.kind = "zip"
        if isinstance(src, (bytes, bytearray)):
            zf = zipfile.ZipFile(io.BytesIO(bytes(src)))
        elif os.path.isdir(src):
            self.kind = "folder"
            zf = None
            for root, dirs, files in os.walk(src):
                rel = os.path.relpath(root, src)
                rel = "" if rel == "." else rel.replace(os.sep, "/") + "/"
                if rel and not dirs and not files:
                    self.dirs.add(rel)
                for f in sorted(files):
                    name = rel + f
                    self.order.append(name)
                    self.parts[name] = open(os.path.join(root, f), "rb").read()
        else:
            zf = zipfile.ZipFile(src)
        if zf is not None:
            for info in zf.infolist():
                self.order.append(info.filename)
                self.compress[info.filename] = info.compress_type
                if info.filename.endswith("/"):
                    self.dirs.add(info.filename)
                else:
                    self.parts.setdefault(info.filename, zf.read(info))
            zf.close()

    @property
    def files(self):
        return set(self.parts)

    def manifest_entries(self):
        data = self.parts.get(MANIFEST)
        if data is None:
            return None
        root = etree.fromstring(data)
        out = []
        for e in root.iter("{%s}file-entry" % MNS):
            out.append((e.get("{%s}full-path" % MNS), e.get("{%s}media-type" % MNS)))
        return out


def package_rules(pkg: Package, expect_mimetype=None):
    """C04 rule set on a saved zip.  -> [(rule, detail)] of broken rules."""
    bad = []
    if not pkg.order or pkg.order[0] != "mimetype":
        bad.append(("mimetype-not-first", {"first": pkg.order[:3]}))
    elif pkg.compress.get("mimetype") != zipfile.ZIP_STORED:
        bad.append(("mimetype-compressed", {"compress_type": pkg.compress.get("mimetype")}))
    mt = pkg.parts.get("mimetype", b"").decode("utf-8", "replace")
    if not mt.startswith(ODF_MIMETYPES_PREFIX):
        bad.append(("mimetype-not-odf", {"mimetype": mt}))
    if expect_mimetype is not None and mt != expect_mimetype:
        bad.append(("mimetype-differs-from-document-type", {"mimetype": mt, "expected": expect_mimetype}))
    dups = sorted({n for n in pkg.order if pkg.order.count(n) > 1})
    if dups:
        bad.append(("duplicate-zip-entries", {"names": dups[:5]}))
    entries = pkg.manifest_entries()
    if entries is None:
        bad.append(("manifest-missing", {}))
        return bad
    paths = [p for p, _ in entries]
    dup_m = sorted({p for p in paths if paths.count(p) > 1})
    if dup_m:
        bad.append(("manifest-lists-path-twice", {"paths": dup_m}))
    root_types = [m for p, m in entries if p == "/"]
    if not root_types:
        bad.append(("manifest-no-root-entry", {}))
    elif root_types[0] != mt:
        bad.append(("manifest-root-mimetype-differs", {"root": root_types[0], "mimetype": mt}))
    listed = set(paths)
    unlisted = sorted(f for f in pkg.files if f not in ("mimetype", MANIFEST) and f not in listed)
    if unlisted:
        bad.append(("file-not-listed-in-manifest", {"files": unlisted}))
    absent = []
    for p in listed:
        if p == "/":
            continue
        if p.endswith("/"):
            # a directory entry names no file: LibreOffice itself lists "Configurations2/" with
            # nothing stored below it (seen in the sample corpus), so it is never "absent"
            continue
        elif p not in pkg.files:
            absent.append(p)
    if absent:
        bad.append(("manifest-lists-absent-path", {"paths": sorted(absent)}))
    return bad


def subtract_baseline(bad, baseline):
    """Remove from `bad` the items (rule, path) the source package already had: the library is
    judged on what it does to a package, not on defects of its input."""
    base = {}
    for rule, d in baseline:
        for key in ("files", "paths", "names"):
            for item in d.get(key, []):
                base.setdefault(rule, set()).add(item)
        if not any(k in d for k in ("files", "paths", "names")):
            base.setdefault(rule, set()).add("*")
    out = []
    for rule, d in bad:
        keyed = [k for k in ("files", "paths", "names") if k in d]
        if not keyed:
            if "*" in base.get(rule, ()):
                continue
            out.append((rule, d))
            continue
        k = keyed[0]
        left = [x for x in d[k] if x not in base.get(rule, ())]
        if left:
            out.append((rule, dict(d, **{k: left[:6]})))
    return out


def source_bytes(src):
    if src["kind"] == "sample":
        return open(os.path.join(SAMPLES, src["name"]), "rb").read()
    if src["kind"] == "decorated":
        return decorated_package(src["base"], src.get("inner", False))
    if src["kind"] == "variant":
        return variant_package(src["base"], src["seed"])
    return None


# --------------------------------------------------------------------------- O-XML


def is_xml_name(name):
    return name.endswith(".xml") or name.endswith(".rdf")


def c14n(data: bytes, drop_generator=False):
    """Canonical XML 2.0 of a part; optionally without the meta:generator element."""
    root = etree.fromstring(data)
    if drop_generator:
        for g in list(root.iter("{%s}generator" % METANS)):
            g.getparent().remove(g)
    # comments/PIs outside the root are part of the infoset of the document
    tree = root.getroottree()
    return etree.tostring(tree, method="c14n2", with_comments=True)


def xml_equal(a: bytes, b: bytes, name=""):
    drop = name.endswith("meta.xml")
    try:
        return c14n(a, drop) == c14n(b, drop)
    except etree.XMLSyntaxError:
        return a == b


def skeleton(data: bytes, drop_generator=False):
    """Element names + sorted attribute items, in document order (layout-insensitive)."""
    root = etree.fromstring(data)
    out = []
    for el in root.iter():
        if not isinstance(el.tag, str):
            continue
        if drop_generator and el.tag == "{%s}generator" % METANS:
            continue
        out.append((el.tag, tuple(sorted(el.attrib.items()))))
    return out


def paragraph_texts(data: bytes):
    root = etree.fromstring(data)
    return [odftext.project(p) for p in odftext.paragraphs(root)]


def non_paragraph_text(data: bytes):
    """Character data outside paragraphs/headings, white space stripped per text node (values
    of meta fields, settings items, binary data …)."""
    root = etree.fromstring(data)
    out = []
    inside = set()
    for p in root.iter(odftext.P, odftext.H):
        for d in p.iter():
            inside.add(d)
    for el in root.iter():
        if not isinstance(el.tag, str) or el in inside:
            continue
        if el.text and el.text.strip():
            out.append((el.tag, re.sub(r"\s+", "", el.text) if el.tag.endswith("binary-data") else el.text.strip()))
    return out


DRAW_IMAGE = "{urn:oasis:names:tc:opendocument:xmlns:drawing:1.0}image"


def _tag_seq(el, out):
    """Element names in document order; the inside of draw:image is skipped (a flat export
    replaces it by the payload)."""
    for ch in el:
        if not isinstance(ch.tag, str):
            continue
        out.append(ch.tag)
        if ch.tag != DRAW_IMAGE:
            _tag_seq(ch, out)
    return out


def flat_payload_issues(state, flat_bytes):
    """Every picture shown by a draw:image of content.xml is in the flat export, byte for byte (decoded)."""
    import base64
    import re

    try:
        root = etree.fromstring(flat_bytes)
        croot = etree.fromstring(state["content.xml"])
    except Exception:
        return []
    payloads = set()
    for e in root.iter("{%s}binary-data" % OFFICE_NS_):
        txt = re.sub(r"\s+", "", e.text or "")
        try:
            payloads.add(base64.b64decode(txt, validate=True))
        except Exception:
            return [("flat-xml:image-payload-not-valid-base64", {"length": len(txt), "tail": txt[-12:]})]
    for img in croot.iter("{urn:oasis:names:tc:opendocument:xmlns:drawing:1.0}image"):
        href = img.get("{http://www.w3.org/1999/xlink}href")
        if href and href in state and state[href] and state[href] not in payloads:
            return [("flat-xml:image-payload-missing-or-altered", {"href": href, "size": len(state[href])})]
    return []


OFFICE_NS_ = "urn:oasis:names:tc:opendocument:xmlns:office:1.0"


def flat_structure_issues(state, flat_bytes):
    """The flat XML document must contain, in order, the children of the roots of meta,
    settings, styles and content with the same element structure. -> [(mechanism, detail)]"""
    try:
        flat = etree.fromstring(flat_bytes)
    except etree.XMLSyntaxError as e:
        return [("flat-xml:not-well-formed", {"exc": repr(e)})]
    got = _tag_seq(flat, [])
    exp = []
    for name in ("meta.xml", "settings.xml", "styles.xml", "content.xml"):
        if name in state and state[name].strip():
            _tag_seq(etree.fromstring(state[name]), exp)
    # the generator stamp is the one change a save may make (it is added when the source had none)
    gen = "{%s}generator" % METANS
    got = [t for t in got if t != gen]
    exp = [t for t in exp if t != gen]
    if got != exp:
        k = next((i for i in range(min(len(got), len(exp))) if got[i] != exp[i]), min(len(got), len(exp)))
        return [("flat-xml:element-structure-differs", {"at": k, "expected": [t.rpartition("}")[2] for t in exp[max(0, k - 2) : k + 3]], "got": [t.rpartition("}")[2] for t in got[max(0, k - 2) : k + 3]], "n_expected": len(exp), "n_got": len(got)})]
    return []


# --------------------------------------------------------------------------- in-memory state


def memory_state(doc):
    """Snapshot of the document as it stands in memory, WITHOUT perturbing which parts are
    parsed or loaded: {path: bytes} (parsed XML parts serialised, others as bytes); deleted
    parts absent."""
    cont = doc.container
    parts = dict(cont._Container__parts)
    state: dict[str, bytes] = {}
    # members not yet loaded from a lazily opened zip / folder
    names = set(parts)
    src = cont.path
    if src is not None:
        if os.path.isdir(src):
            pk = Package(str(src))
            for n, b in pk.parts.items():
                if n not in names:
                    state[n] = b
            for d in pk.dirs:
                if d not in names:
                    state[d] = b""
        elif zipfile.is_zipfile(src):
            with zipfile.ZipFile(src) as z:
                for info in z.infolist():
                    if info.filename not in names:
                        state[info.filename] = b"" if info.filename.endswith("/") else z.read(info)
    for n, b in parts.items():
        if b is not None:
            state[n] = b
        else:
            state.pop(n, None)
    for path, part in doc._Document__xmlparts.items():
        if part is not None and state.get(path, b"x") is not None:
            if path not in state and getattr(part, "_XmlPart__tree", None) is None:
                continue  # a wrapper for a member the package does not have (e.g. no settings.xml): nothing to read
            state[path] = part.serialize()
    return state


def parsed_parts(doc):
    return sorted(p for p, v in doc._Document__xmlparts.items() if v is not None)


def state_digest(state):
    import hashlib

    h = hashlib.sha256()
    for k in sorted(state):
        h.update(k.encode())
        h.update(b"\0")
        h.update(state[k])
    return h.hexdigest()


def compare_states(E, A, what="saved", lenient_dirs=True):
    """E expected {path: bytes}, A actual {path: bytes}.  -> [(mechanism, detail)]"""
    out = []

    def files(s):
        return {k for k in s if not k.endswith("/")}

    ef, af = files(E), files(A)
    lost = sorted(ef - af)
    invented = sorted(af - ef)
    if lost:
        out.append((f"{what}:part-lost", {"parts": lost[:6]}))
    if invented:
        out.append((f"{what}:part-invented", {"parts": invented[:6]}))
    if not lenient_dirs:
        ed, ad = set(E) - ef, set(A) - af
        if ed != ad:
            out.append((f"{what}:directory-entries-differ", {"lost": sorted(ed - ad)[:5], "invented": sorted(ad - ed)[:5]}))
    for k in sorted(ef & af):
        if is_xml_name(k):
            if not xml_equal(E[k], A[k], k):
                out.append((f"{what}:xml-part-differs", {"part": k, "hint": first_diff(E[k], A[k], k)}))
        elif E[k] != A[k]:
            out.append((f"{what}:binary-part-differs", {"part": k, "len_expected": len(E[k]), "len_got": len(A[k])}))
    return out


def first_diff(a, b, name=""):
    try:
        ca, cb = c14n(a, name.endswith("meta.xml")), c14n(b, name.endswith("meta.xml"))
    except Exception:
        ca, cb = a, b
    n = min(len(ca), len(cb))
    i = next((k for k in range(n) if ca[k] != cb[k]), n)
    return {"at": i, "expected": ca[max(0, i - 60) : i + 80].decode("utf-8", "replace"), "got": cb[max(0, i - 60) : i + 80].decode("utf-8", "replace")}


# --------------------------------------------------------------------------- sources


def open_source(src):
    """src = {"kind": "template"|"sample"|"generated", ...} -> Document (path-backed for samples)."""
    from odfdo import Document

    k = src["kind"]
    if k == "template":
        return Document(src["name"])
    if k == "sample":
        p = os.path.join(SAMPLES, src["name"])
        if src.get("via") == "bytesio":
            return Document(io.BytesIO(open(p, "rb").read()))
        return Document(p)
    if k == "generated":
        return generate_document(src["spec"])
    if k == "decorated":
        return Document(io.BytesIO(decorated_package(src["base"], src.get("inner", False))))
    if k == "variant":
        return Document(io.BytesIO(variant_package(src["base"], src["seed"])))
    raise KeyError(k)


OFFICE_NS = "urn:oasis:names:tc:opendocument:xmlns:office:1.0"
TABLE_NS = "urn:oasis:names:tc:opendocument:xmlns:table:1.0"


def variant_package(base, seed):
    """A legal document another producer could have written: `base` with optional elements left out
    (children of office:meta, font-face declarations, automatic / master styles, sequence declarations,
    the settings part) and, in spreadsheets, named ranges whose addresses are legal but not in the form
    odfdo itself writes (base cell away from the range, table name quoted without need, absolute and
    relative references mixed)."""
    import random

    rng = random.Random(f"variant/{base}/{seed}")
    if base in TEMPLATES:
        from odfdo import Document

        buf = io.BytesIO()
        Document(base).save(buf)
        raw = buf.getvalue()
    else:
        raw = open(os.path.join(SAMPLES, base), "rb").read()
    drop_settings = rng.random() < 0.3
    rename_prefix = rng.random() < 0.25
    out = io.BytesIO()
    with zipfile.ZipFile(io.BytesIO(raw)) as zin, zipfile.ZipFile(out, "w", zipfile.ZIP_DEFLATED) as zout:
        for info in zin.infolist():
            data = zin.read(info)
            name = info.filename
            if name == "settings.xml" and drop_settings:
                continue
            if name == "META-INF/manifest.xml":
                MNS = "{urn:oasis:names:tc:opendocument:xmlns:manifest:1.0}"
                root = etree.fromstring(data)
                for e in list(root):
                    if not isinstance(e.tag, str):
                        continue
                    fp = e.get(MNS + "full-path") or ""
                    if drop_settings and fp == "settings.xml":
                        root.remove(e)
                    elif fp.startswith("Pictures/") and not fp.endswith("/") and rng.random() < 0.6:
                        e.set(MNS + "media-type", "")  # what LibreOffice writes for a file type it does not know
                data = etree.tostring(root.getroottree(), xml_declaration=True, encoding="UTF-8")
            elif name == "meta.xml":
                root = etree.fromstring(data)
                meta = root.find("{%s}meta" % OFFICE_NS)
                if meta is not None:
                    for e in list(meta):
                        if rng.random() < 0.5:
                            meta.remove(e)
                data = etree.tostring(root.getroottree(), xml_declaration=True, encoding="UTF-8")
            elif name in ("styles.xml", "content.xml"):
                root = etree.fromstring(data)
                for local in ("font-face-decls", "automatic-styles", "master-styles", "scripts"):
                    e = root.find("{%s}%s" % (OFFICE_NS, local))
                    if e is not None and len(e) == 0 and rng.random() < 0.5:
                        root.remove(e)  # only empty containers: nothing may refer to what they held
                if name == "content.xml":
                    body = root.find("{%s}body" % OFFICE_NS)
                    kind = body[0] if body is not None and len(body) else None
                    if kind is not None and kind.tag == "{%s}spreadsheet" % OFFICE_NS:
                        tables = [t for t in kind if t.tag == "{%s}table" % TABLE_NS]
                        if tables:
                            tn = tables[0].get("{%s}name" % TABLE_NS)
                            q = "'" + tn.replace("'", "''") + "'"
                            plain = tn if tn.isalnum() else q
                            ne = kind.find("{%s}named-expressions" % TABLE_NS)
                            if ne is None:
                                ne = etree.SubElement(kind, "{%s}named-expressions" % TABLE_NS)
                            forms = [
                                (f"${plain}.$C$3", f"${plain}.$A$1:.$B$2"),  # base cell away from the range
                                (f"${q}.$A$1", f"${q}.$A$1:.$B$2"),  # quoted without need
                                (f"{plain}.A1", f"{plain}.A1:.B2"),  # relative references
                                (f"${plain}.$B$2", f"${plain}.$B$2"),  # single cell
                            ]
                            for i, (bc, cr) in enumerate(forms):
                                if rng.random() < 0.6:
                                    nr = etree.SubElement(ne, "{%s}named-range" % TABLE_NS)
                                    nr.set("{%s}name" % TABLE_NS, f"vfrange{i}")
                                    nr.set("{%s}base-cell-address" % TABLE_NS, bc)
                                    nr.set("{%s}cell-range-address" % TABLE_NS, cr)
                    elif kind is not None:
                        for e in list(kind):
                            if isinstance(e.tag, str) and e.tag.rpartition("}")[2] in ("sequence-decls", "forms") and rng.random() < 0.5:
                                kind.remove(e)
                data = etree.tostring(root.getroottree(), xml_declaration=True, encoding="UTF-8")
            if name in ("content.xml", "styles.xml") and data.strip() and rename_prefix:
                # the ODF text namespace bound to another prefix: the same infoset, as any producer may write it
                if b"xmlns:txt=" not in data and b" text:" not in data.split(b">", 2)[1][:0]:
                    data = data.replace(b"xmlns:text=", b"xmlns:txt=").replace(b"<text:", b"<txt:").replace(b"</text:", b"</txt:").replace(b" text:", b" txt:")
                    etree.fromstring(data)  # still well-formed
            if name in ("meta.xml", "content.xml", "styles.xml") and data.strip() and rng.random() < 0.15:
                # another legal XML encoding, declared in the XML declaration (odfdo itself always writes UTF-8)
                enc = rng.choice(["ISO-8859-1", "UTF-16"])
                data = etree.tostring(etree.fromstring(data).getroottree(), xml_declaration=True, encoding=enc)
            zout.writestr(info, data, compress_type=zipfile.ZIP_STORED if name == "mimetype" else zipfile.ZIP_DEFLATED)
    return out.getvalue()


def decorated_package(base, inner=False):
    """A legal but unusual package: the sample/template `base` with comments and processing
    instructions before and after the root element of content.xml and styles.xml; with inner=True
    also inside the tree (first child of the body, inside the first paragraph between text)."""
    if base in TEMPLATES:
        from odfdo import Document

        buf = io.BytesIO()
        Document(base).save(buf)
        raw = buf.getvalue()
    else:
        raw = open(os.path.join(SAMPLES, base), "rb").read()
    out = io.BytesIO()
    with zipfile.ZipFile(io.BytesIO(raw)) as zin, zipfile.ZipFile(out, "w", zipfile.ZIP_DEFLATED) as zout:
        for info in zin.infolist():
            data = zin.read(info)
            if info.filename in ("content.xml", "styles.xml"):
                root = etree.fromstring(data)
                root.addprevious(etree.Comment(" exported by vf decorator "))
                root.addprevious(etree.ProcessingInstruction("vf-revision", "42"))
                root.addnext(etree.Comment(" end of part "))
                if inner:
                    body = root.find("{%s}body" % OFFICE_NS)
                    host = body[0] if body is not None and len(body) else root
                    host.insert(0, etree.Comment(" a comment inside the tree "))
                    host.insert(1, etree.ProcessingInstruction("vf-inner", "1"))
                    TXP = "{urn:oasis:names:tc:opendocument:xmlns:text:1.0}p"
                    for p_ in root.iter(TXP):
                        c_ = etree.Comment("in a paragraph")
                        c_.tail = p_.text
                        p_.text = None
                        p_.insert(0, c_)
                        break
                    # a comment and a processing instruction in the middle of running text (a template engine's
                    # markers, a hand edit): the text after each of them belongs to the paragraph
                    with_text = [p_ for p_ in root.iter(TXP) if p_.text and p_.text.strip() and len(p_.text) > 3]
                    if with_text:
                        p_ = with_text[0]
                        t_ = p_.text
                        c_ = etree.Comment(" note ")
                        c_.tail = t_[2:]
                        p_.text = t_[:2]
                        p_.insert(0, c_)
                    elif host.tag == "{%s}text" % OFFICE_NS and info.filename == "content.xml":
                        p_ = etree.SubElement(host, TXP)
                        p_.text = "alpha"
                        c_ = etree.SubElement(p_, TXP)  # placeholder replaced below
                        p_.remove(c_)
                        c_ = etree.Comment(" note ")
                        c_.tail = "beta"
                        p_.append(c_)
                        pi_ = etree.ProcessingInstruction("vf-mark", "x")
                        pi_.tail = "gamma"
                        p_.append(pi_)
                data = etree.tostring(root.getroottree(), xml_declaration=True, encoding="UTF-8")
            zout.writestr(info, data, compress_type=zipfile.ZIP_STORED if info.filename == "mimetype" else zipfile.ZIP_DEFLATED)
    return out.getvalue()


def gen_source(rng, allow_generated=True):
    k = rng.random()
    if k < 0.25:
        return {"kind": "template", "name": rng.choice(TEMPLATES)}
    if k < 0.33:
        return {"kind": "decorated", "base": rng.choice(TEMPLATES + ["example.odt", "simple_table.ods", "note.odt"]), "inner": rng.random() < 0.5}
    if k < 0.41:
        return {"kind": "variant", "base": rng.choice(TEMPLATES + ["example.odt", "simple_table.ods", "note.odt", "background.odp", "base_shapes.odg"]), "seed": rng.randrange(1000)}
    if k < 0.7 or not allow_generated:
        s = {"kind": "sample", "name": rng.choice(sample_files())}
        if rng.random() < 0.3:
            s["via"] = "bytesio"
        return s
    return {"kind": "generated", "spec": gen_doc_spec(rng)}


# --------------------------------------------------------------------------- generated documents

INLINE_KINDS = ["text", "s", "tab", "lb", "span", "link", "note", "annotation", "frame", "bookmark", "refmark", "spaces", "nbsp", "nnbsp", "ruby"]


def gen_doc_spec(rng, kind=None):
    kind = kind or rng.choice(["text", "text", "spreadsheet"])
    spec = {"type": kind, "seed": rng.randrange(10**9)}
    if kind == "text":
        paras = []
        for _ in range(rng.randint(1, 6)):
            pieces = [rng.choice(INLINE_KINDS) for _ in range(rng.randint(1, 6))]
            paras.append({"h": rng.random() < 0.25, "pieces": pieces})
        spec["paras"] = paras
        spec["table"] = rng.random() < 0.4
        spec["image"] = rng.random() < 0.4
        spec["image_twice"] = spec["image"] and rng.random() < 0.5
        spec["big_image"] = rng.choice([65535, 65536, 65537, 70000, 131072, 200000]) if spec["image"] and rng.random() < 0.35 else 0
    else:
        from . import tablelab as TL

        spec["recipes"] = [TL.gen_recipe(rng, TL.Vals(rng.randrange(1000))) for _ in range(rng.randint(1, 2))]
    return spec


def build_paragraph(pieces, heading=False, rng=None, counter=[0]):
    """Build a text:p / text:h mixing inline pieces; words are unique so that text is checkable."""
    from odfdo import Element, Header, Paragraph

    p = Header(1, "") if heading else Paragraph("")

    def word():
        counter[0] += 1
        return f"w{counter[0]}"

    for k in pieces:
        if k == "text":
            p.append_plain_text(word() + " " + word())
        elif k == "spaces":
            p.append_plain_text("  " + word() + "   ")
        elif k in ("nbsp", "nnbsp"):
            # a blank that is not XML white space, alone in its text node (French typography: a narrow no-break
            # space between a note call and the punctuation mark)
            ch = "\u00a0" if k == "nbsp" else "\u202f"
            kids = p.children
            if kids:
                kids[-1].tail = (kids[-1].tail or "") + ch
            else:
                p.text = (p.text or "") + ch
        elif k == "ruby":
            # East Asian annotation as other producers write it: a base with a partly formatted text
            p.append(Element.from_tag(f'<text:ruby text:style-name="Ru1"><text:ruby-base>{word()}<text:span text:style-name="T1">{word()}</text:span>{word()}</text:ruby-base><text:ruby-text>{word()}</text:ruby-text></text:ruby>'))
        elif k == "s":
            p.append(Element.from_tag("text:s"))
        elif k == "tab":
            p.append(Element.from_tag("text:tab"))
        elif k == "lb":
            p.append(Element.from_tag("text:line-break"))
        elif k == "span":
            sp = Element.from_tag("text:span")
            sp.text = word() + " "
            sp.set_attribute("text:style-name", "T1")
            p.append(sp)
        elif k == "link":
            a = Element.from_tag("text:a")
            a.set_attribute("xlink:href", "http://example.com/" + word())
            a.text = word()
            p.append(a)
        elif k == "note":
            from odfdo import Note

            p.append(Note("footnote", note_id=word(), citation="1", body=word()))
        elif k == "annotation":
            from odfdo import Annotation

            p.append(Annotation(word(), creator="vf", date=None))
        elif k == "frame":
            from odfdo import Frame

            p.append(Frame.text_frame(word(), size=("2cm", "1cm"), anchor_type="as-char", name=word()))
        elif k == "bookmark":
            b = Element.from_tag("text:bookmark")
            b.set_attribute("text:name", word())
            p.append(b)
        elif k == "refmark":
            b = Element.from_tag("text:reference-mark")
            b.set_attribute("text:name", word())
            p.append(b)
    return p


def generate_document(spec):
    import random

    from odfdo import Document, Frame, Paragraph

    rng = random.Random(spec["seed"])
    if spec["type"] == "text":
        doc = Document("text")
        body = doc.body
        body.clear()
        counter = [0]
        for para in spec["paras"]:
            body.append(build_paragraph(para["pieces"], para["h"], rng, counter))
        if spec.get("table"):
            from odfdo import Table

            if spec.get("empty_table"):
                body.append(Table("Tab0", 2, 2))  # a table that exports to nothing, before the other one
            t = Table("Tab1", 4, 4)  # trailing empty cells, rows and a surplus column: what a strip would remove
            t.set_values([["a", "b", "c"], [1, 2, 3]])
            body.append(t)
        if spec.get("tracked"):
            from odfdo import Element

            # one deletion holding a heading with inline children, one insertion spanning a heading and a paragraph
            body.insert(
                Element.from_tag(
                    '<text:tracked-changes>'
                    '<text:changed-region xml:id="ct1" text:id="ct1"><text:deletion><office:change-info><dc:creator>vf</dc:creator>'
                    '<dc:date>2020-01-01T00:00:00</dc:date></office:change-info>'
                    '<text:h text:outline-level="1">gone <text:span>styled</text:span> tail<text:s/>end</text:h><text:p>gone <text:reference-mark text:name="dr1"/>too<text:reference-mark-start text:name="dr2"/> far<text:reference-mark-end text:name="dr2"/><text:bookmark text:name="db1"/><text:change text:change-id="ct2"/></text:p>'
                    '</text:deletion></text:changed-region>'
                    '<text:changed-region xml:id="ct2" text:id="ct2"><text:insertion><office:change-info><dc:creator>vf</dc:creator>'
                    '<dc:date>2020-01-02T00:00:00</dc:date></office:change-info></text:insertion></text:changed-region>'
                    '</text:tracked-changes>'
                ),
                position=0,
            )
            body.append(Element.from_tag('<text:p>before<text:change text:change-id="ct1"/> kept <text:change-start text:change-id="ct2"/>new</text:p>'))
            body.append(Element.from_tag('<text:h text:outline-level="2">new <text:span>head</text:span> line</text:h>'))
            body.append(Element.from_tag('<text:p>still new<text:change-end text:change-id="ct2"/> after</text:p>'))
        if spec.get("bare_note"):
            from odfdo import Element

            # notes as another producer may write them: an empty citation, a citation with a label attribute only
            body.append(Element.from_tag('<text:h text:outline-level="1">head<text:note text:id="bn0" text:note-class="endnote"><text:note-citation/><text:note-body><text:p>end body</text:p></text:note-body></text:note> after</text:h>'))
            body.append(Element.from_tag('<text:p>bare<text:note text:id="bn1" text:note-class="footnote"><text:note-citation/><text:note-body><text:p>first body</text:p></text:note-body></text:note> and<text:note text:id="bn2" text:note-class="footnote"><text:note-citation text:label="*"/><text:note-body><text:p>second body</text:p></text:note-body></text:note> end</text:p>'))
        if spec.get("image"):
            uri = doc.add_file(io.BytesIO(PNG))
            fr = Frame.image_frame(uri, size=("1cm", "1cm"), anchor_type="as-char", name="img1")
            p = Paragraph("img")
            p.append(fr)
            body.append(p)
            if spec.get("big_image"):
                # a picture around / beyond 64 KiB (the samples only hold small ones)
                import random as _random

                size = spec["big_image"]
                blob = PNG + bytes(_random.Random(size).getrandbits(8) for _ in range(size - len(PNG)))
                uri3 = doc.add_file(io.BytesIO(blob))
                p3 = Paragraph("big")
                p3.append(Frame.image_frame(uri3, size=("3cm", "3cm"), anchor_type="as-char", name="imgbig"))
                body.append(p3)
            if spec.get("image_twice"):  # two frames showing the same picture
                uri2 = doc.add_file(io.BytesIO(PNG))
                p2 = Paragraph("again")
                p2.append(Frame.image_frame(uri2, size=("2cm", "2cm"), anchor_type="as-char", name="img2"))
                body.append(p2)
        return doc
    from . import tablelab as TL

    doc = Document("spreadsheet")
    doc.body.clear()
    for i, recipe in enumerate(spec["recipes"]):
        doc.body.append(TL.build_table(recipe, name=f"Sheet{i + 1}"))
    return doc


# --------------------------------------------------------------------------- edit histories

EDIT_OPS = [
    "touch_body", "touch_styles", "touch_meta", "touch_manifest", "touch_settings", "append_paragraph", "delete_first_paragraph",
    "table_set_value", "insert_style", "meta_title", "meta_userdef", "add_file_path", "add_file_io", "add_file_same", "set_part_xml",
    "set_part_binary", "del_part_binary", "del_added", "insert_image_frame", "add_xml_part",
]


def readd_theme(rng, edits):
    """Insert (in order, other edits in between) the sequence: add a file - delete it - add the same content again."""
    kind = rng.choice(["add_file_same", "add_file_same", "add_file_path", "add_file_io"])
    k = rng.randrange(10**6)
    theme = [{"op": kind, "k": k}, {"op": "del_last_added", "k": 0}, {"op": kind, "k": k}]
    if rng.random() < 0.3:
        theme += [{"op": "del_last_added", "k": 0}]
    pos = sorted(rng.randrange(len(edits) + 1) for _ in theme)
    out = list(edits)
    for off, (at, op) in enumerate(zip(pos, theme)):
        out.insert(at + off, op)
    return out


def gen_edits(rng, n, allow=None):
    ops = []
    for _ in range(n):
        o = rng.choice(allow or EDIT_OPS)
        ops.append({"op": o, "k": rng.randrange(10**6)})
    return ops


class EditModel:
    """What the history says about parts the API does not let us derive from private state:
    last raw overwrite of an XML part (set_part), files added, parts deleted."""

    def __init__(self):
        self.overwritten: dict[str, bytes] = {}
        self.added: list[str] = []
        self.deleted: set[str] = set()
        self.frozen: set[str] = set()  # XML parts that must not be edited any more in this history
        self.added_bytes: dict[str, bytes] = {}  # what add_file was given, by returned uri


def apply_edit(doc, op, model: EditModel, tmpdir):
    """Apply one edit through the public API. Returns a tag describing what happened."""
    from odfdo import Frame, Paragraph, Style

    o, k = op["op"], op["k"]
    mt = doc.mimetype
    is_text = mt.endswith("text")
    is_sheet = mt.endswith("spreadsheet")
    if o == "touch_body":
        if "content.xml" in model.frozen:
            return "skipped"
        doc.body
    elif o == "touch_styles":
        if "styles.xml" in model.frozen:
            return "skipped"
        doc.styles
    elif o == "touch_meta":
        doc.meta
    elif o == "touch_manifest":
        doc.manifest
    elif o == "touch_settings":
        if "settings.xml" in model.frozen:
            return "skipped"
        try:
            doc.get_part("settings")
        except Exception:
            return "skipped"
    elif o == "append_paragraph":
        if not is_text or "content.xml" in model.frozen:
            return "skipped"
        doc.body.append(Paragraph(f"added {k}  with  spaces\tand tab"))
    elif o == "delete_first_paragraph":
        if not is_text or "content.xml" in model.frozen:
            return "skipped"
        p = doc.body.get_paragraph()
        if p is None:
            return "skipped"
        p.delete()
    elif o == "table_set_value":
        if "content.xml" in model.frozen:
            return "skipped"
        tables = doc.body.get_tables()
        if not tables:
            return "skipped"
        t = tables[k % len(tables)]
        t.set_value((k % 3, k % 4), f"edit{k}")
    elif o == "insert_style":
        if "content.xml" in model.frozen or "styles.xml" in model.frozen:
            return "skipped"
        auto = k % 2 == 0
        doc.insert_style(Style("paragraph", name=f"vfstyle{k}", area="text", color="#123456"), automatic=auto)
    elif o == "meta_title":
        doc.meta.title = f"Title {k} é <&>"
    elif o == "meta_userdef":
        doc.meta.set_user_defined_metadata(f"key{k % 5}", [k, f"v{k}", True][k % 3])
    elif o in ("add_file_path", "add_file_io", "add_file_same"):
        data = PNG + (b"" if o == "add_file_same" else str(k).encode())
        if o == "add_file_path":
            path = os.path.join(tmpdir, f"pic{k}.png")
            open(path, "wb").write(data)
            uri = doc.add_file(path)
        else:
            uri = doc.add_file(io.BytesIO(data))
        model.added.append(uri)
        model.added_bytes[uri] = data
        model.deleted.discard(uri)
    elif o == "set_part_xml":
        path = ["content.xml", "styles.xml", "settings.xml"][k % 3]
        state = memory_state(doc)
        if path not in state:
            return "skipped"
        root = etree.fromstring(state[path])
        root.append(etree.Comment(f" vf set_part {k} "))
        data = etree.tostring(root, xml_declaration=True, encoding="UTF-8")
        # the documented shortcut names ('content', 'styles', 'settings') or the full path
        doc.set_part(path.split(".")[0] if (k // 3) % 2 else path, data)
        model.overwritten[path] = data
        model.frozen.add(path)
        return "set_part_xml:" + ("parsed-before" if path in parsed_parts(doc) else "unparsed") + ("+shortcut" if (k // 3) % 2 else "")
    elif o == "add_xml_part":
        # an XML part the package does not have yet (an embedded object's content, or settings.xml when the
        # document has none) is added with set_part, then edited through the object get_part returns
        state = memory_state(doc)
        path = "settings.xml" if ("settings.xml" not in state and k % 2) else f"Object {k % 3 + 7}/content.xml"
        if path in state or path in model.overwritten:
            return "skipped"
        if path == "settings.xml":
            data = b'<?xml version="1.0" encoding="UTF-8"?>\n<office:document-settings xmlns:office="urn:oasis:names:tc:opendocument:xmlns:office:1.0" xmlns:config="urn:oasis:names:tc:opendocument:xmlns:config:1.0" office:version="1.2"><office:settings><config:config-item-set config:name="vf"/></office:settings></office:document-settings>'
        else:
            data = b'<?xml version="1.0" encoding="UTF-8"?>\n<office:document-content xmlns:office="urn:oasis:names:tc:opendocument:xmlns:office:1.0" xmlns:text="urn:oasis:names:tc:opendocument:xmlns:text:1.0" office:version="1.2"><office:body><office:text><text:p>embedded object</text:p></office:text></office:body></office:document-content>'
        doc.set_part(path, data)
        doc.manifest.add_full_path(path, "text/xml")
        if "/" in path and doc.manifest.get_media_type(path.split("/")[0] + "/") is None:
            doc.manifest.add_full_path(path.split("/")[0] + "/", "application/vnd.oasis.opendocument.text")
        part = doc.get_part(path)
        part.root.set_attribute("office:version", f"1.{k % 4}")
        expected = part.serialize()
        if b'office:version="1.%d"' % (k % 4) not in expected:
            raise RuntimeError("harness: the edit of the new part is not in its own serialisation")
        model.overwritten[path] = expected  # what the history says this part holds
        model.frozen.add(path)
        return "add_xml_part:" + ("settings" if path == "settings.xml" else "object")
    elif o == "set_part_binary":
        path = f"Pictures/vf{k % 3}.bin"
        doc.set_part(path, b"binary" + str(k).encode())
        # set_part does not touch the manifest: keep the package consistent the documented way
        doc.manifest.add_full_path(path, "application/octet-stream")
        if doc.manifest.get_media_type("Pictures/") is None:
            doc.manifest.add_full_path("Pictures/")
        model.deleted.discard(path)
    elif o == "del_part_binary":
        state = memory_state(doc)
        cands = sorted(p for p in state if not p.endswith("/") and not is_xml_name(p) and p != "mimetype")
        brought = sorted(p for p in getattr(model, "merged_parts", ()) if p in cands)
        if brought and k % 2:
            cands = brought  # aim at a picture a merge brought in
        if not cands:
            return "skipped"
        path = cands[k % len(cands)]
        doc.del_part(path)
        model.deleted.add(path)
    elif o in ("del_added", "del_last_added"):
        if not model.added:
            return "skipped"
        path = model.added[-1] if o == "del_last_added" else model.added[k % len(model.added)]
        if path in model.deleted:
            return "skipped"
        doc.del_part(path)
        model.deleted.add(path)
    elif o == "insert_image_frame":
        if not is_text or "content.xml" in model.frozen:
            return "skipped"
        uri = doc.add_file(io.BytesIO(PNG + b"frame" + str(k % 2).encode()))
        model.added.append(uri)
        model.deleted.discard(uri)
        p = Paragraph("pic")
        p.append(Frame.image_frame(uri, size=("1cm", "1cm"), anchor_type="as-char", name=f"fr{k}"))
        doc.body.append(p)
    elif o == "merge_styles":
        if "content.xml" in model.frozen or "styles.xml" in model.frozen:
            return "skipped"
        other = ["background.odp", "example.odp", "lpod_styles.odt", "example.odt", "styled_table.ods"][k % 5]
        if getattr(model, "last_merge", None) and k % 3:
            other = model.last_merge  # the same source again (its pictures may have been deleted in between)
        from odfdo import Document

        before = set(memory_state(doc))
        if k % 4 == 1 and other.endswith(".odp"):
            # the same source as another producer wrote it (pictures listed with an empty media type)
            doc.merge_styles_from(Document(io.BytesIO(variant_package(other, k % 7))))
        else:
            doc.merge_styles_from(Document(os.path.join(SAMPLES, other)))
        after = set(memory_state(doc))
        model.last_merge = other
        model.merged_parts = getattr(model, "merged_parts", set()) | {p for p in after - before if not is_xml_name(p) and not p.endswith("/")}
        # a merge brings the source's pictures (back): they are part of the document again
        src_pics = {p for p in memory_state(Document(os.path.join(SAMPLES, other))) if p.startswith("Pictures/")}
        model.deleted -= {p for p in after if p in src_pics}
        return "merge_styles:" + other.rsplit(".", 1)[-1]
    else:
        raise KeyError(o)
    return o


def expected_state(doc, model: EditModel):
    """In-memory state corrected by what the history says (a raw overwrite of an XML part wins
    over an older parsed copy of it)."""
    st = memory_state(doc)
    for path, data in model.overwritten.items():
        st[path] = data
    for path in model.deleted:
        st.pop(path, None)
    return st


FOLDER_NAMES = ["out", "letter", "order", "newsletter", "proof.odf", "offer", "report.odt", "my.folder.copy", "red", "x.ods", "folder"]


class ArtefactMissing(Exception):
    """The save returned but nothing is at the place the caller asked for."""


def save_doc(doc, how, tmpdir, pretty=False, tag="", reuse=None):
    """how ∈ {"zip-path","zip-io","folder","xml-io"} -> (artefact, Package or bytes).
    reuse: a dict kept by the caller; when given, successive zip / folder saves go to the very same
    target (same path, same BytesIO object left as the previous save left it)."""
    if reuse is not None:
        tag = "R"
    if how == "zip-path":
        path = os.path.join(tmpdir, f"out{tag}.odx")
        doc.save(path, pretty=pretty)
        return path, Package(path)
    if how == "zip-io":
        buf = io.BytesIO() if reuse is None else reuse.setdefault("buf", io.BytesIO())
        if reuse is not None and reuse.get("occupant") and not reuse.get("occupied"):
            # the buffer already holds a (larger) archive: a save of another document
            from odfdo import Document

            Document(os.path.join(SAMPLES, reuse["occupant"])).save(buf)
            reuse["occupied"] = True
        doc.save(buf, pretty=pretty)
        return buf.getvalue(), Package(buf.getvalue())
    if how == "folder":
        # target names users give: with or without the ".folder" suffix, base names ending in letters of
        # that suffix, with another extension, holding ".folder" in the middle
        import zlib

        h = zlib.crc32(f"folder/{tag}".encode())
        base = FOLDER_NAMES[h % len(FOLDER_NAMES)]
        path = os.path.join(tmpdir, f"t{tag}_{base}")
        if reuse is not None and reuse.get("occupant") and not reuse.get("occupied"):
            # the place is taken by a folder save of another document (with pictures this one does not have)
            from odfdo import Document

            Document(os.path.join(SAMPLES, reuse["occupant"])).save(path, packaging="folder")
            reuse["occupied"] = True
        doc.save(path + ".folder" if (h >> 8) % 3 == 0 else path, packaging="folder", pretty=pretty)
        if not os.path.isdir(path + ".folder"):
            raise ArtefactMissing(f"saved as folder to {os.path.basename(path)!r}: no directory {os.path.basename(path)}.folder (found: {sorted(os.listdir(tmpdir))[:6]})")
        return path + ".folder", Package(path + ".folder")
    if how == "xml-io":
        buf = io.BytesIO()
        doc.save(buf, packaging="xml", pretty=pretty)
        return buf.getvalue(), None
    raise KeyError(how)


def reopen(artefact):
    from odfdo import Document

    if isinstance(artefact, (bytes, bytearray)):
        return Document(io.BytesIO(bytes(artefact)))
    return Document(artefact)


class TmpDir:
    def __enter__(self):
        self.path = tempfile.mkdtemp(prefix="vf-", dir=os.environ.get("VF_TMP") or None)
        return self.path

    def __exit__(self, *a):
        shutil.rmtree(self.path, ignore_errors=True)
