"""Known-finding classifiers: deterministic predicates over the *input situation* (never over
seeds, hashes or random values).  A classifier only claims a witness for a finding listed in
/verif/known_findings.txt; anything it does not claim is reported as a VIOLATION."""

# Frozen copy of odfdo.container.TEXT_CONTENT as of the pinned tree (not read from the
# repository at run time: a change of that table must not widen what the classifier claims).
TEXT_CONTENT_FROZEN = {'config:config-item',
 'db:data-source-setting-value',
 'db:table-filter-pattern',
 'db:table-type',
 'dc:creator',
 'dc:date',
 'dc:description',
 'dc:language',
 'dc:subject',
 'dc:title',
 'form:item',
 'form:option',
 'math:math',
 'meta:creation-date',
 'meta:date-string',
 'meta:editing-cycles',
 'meta:editing-duration',
 'meta:generator',
 'meta:initial-creator',
 'meta:keyword',
 'meta:print-date',
 'meta:printed-by',
 'meta:user-defined',
 'number:currency-symbol',
 'number:embedded-text',
 'number:text',
 'office:script',
 'presentation:date-time-decl',
 'presentation:footer-decl',
 'presentation:header-decl',
 'svg:desc',
 'svg:title',
 'table:desc',
 'table:title',
 'text:a',
 'text:author-initials',
 'text:author-name',
 'text:bibliography-mark',
 'text:bookmark-ref',
 'text:chapter',
 'text:character-count',
 'text:conditional-text',
 'text:creation-date',
 'text:creation-time',
 'text:creator',
 'text:database-display',
 'text:database-name',
 'text:database-row-number',
 'text:date',
 'text:dde-connection',
 'text:description',
 'text:editing-cycles',
 'text:editing-duration',
 'text:execute-macro',
 'text:expression',
 'text:file-name',
 'text:h',
 'text:hidden-paragraph',
 'text:hidden-text',
 'text:image-count',
 'text:index-entry-span',
 'text:index-title-template',
 'text:initial-creator',
 'text:keywords',
 'text:linenumbering-separator',
 'text:measure',
 'text:meta',
 'text:meta-field',
 'text:modification-date',
 'text:modification-time',
 'text:note-citation',
 'text:note-continuation-notice-backward',
 'text:note-continuation-notice-forward',
 'text:note-ref',
 'text:number',
 'text:object-count',
 'text:p',
 'text:page-continuation',
 'text:page-count',
 'text:page-number',
 'text:page-variable-get',
 'text:page-variable-set',
 'text:paragraph-count',
 'text:placeholder',
 'text:print-date',
 'text:print-time',
 'text:printed-by',
 'text:reference-ref',
 'text:ruby-base',
 'text:ruby-text',
 'text:script',
 'text:sender-city',
 'text:sender-company',
 'text:sender-country',
 'text:sender-email',
 'text:sender-fax',
 'text:sender-firstname',
 'text:sender-initials',
 'text:sender-lastname',
 'text:sender-phone-private',
 'text:sender-phone-work',
 'text:sender-position',
 'text:sender-postal-code',
 'text:sender-state-or-province',
 'text:sender-street',
 'text:sender-title',
 'text:sequence',
 'text:sequence-ref',
 'text:sheet-name',
 'text:span',
 'text:subject',
 'text:table-count',
 'text:table-formula',
 'text:template-name',
 'text:text-input',
 'text:time',
 'text:title',
 'text:user-defined',
 'text:user-field-get',
 'text:user-field-input',
 'text:variable-get',
 'text:variable-input',
 'text:variable-set',
 'text:word-count'}

NSMAP_PREFIX = {
    "urn:oasis:names:tc:opendocument:xmlns:text:1.0": "text",
    "urn:oasis:names:tc:opendocument:xmlns:office:1.0": "office",
    "urn:oasis:names:tc:opendocument:xmlns:drawing:1.0": "draw",
    "urn:oasis:names:tc:opendocument:xmlns:table:1.0": "table",
    "urn:oasis:names:tc:opendocument:xmlns:presentation:1.0": "presentation",
    "urn:oasis:names:tc:opendocument:xmlns:svg-compatible:1.0": "svg",
    "urn:oasis:names:tc:opendocument:xmlns:meta:1.0": "meta",
    "urn:oasis:names:tc:opendocument:xmlns:form:1.0": "form",
    "urn:oasis:names:tc:opendocument:xmlns:script:1.0": "script",
    "urn:oasis:names:tc:opendocument:xmlns:style:1.0": "style",
    "urn:oasis:names:tc:opendocument:xmlns:datastyle:1.0": "number",
    "urn:oasis:names:tc:opendocument:xmlns:chart:1.0": "chart",
    "urn:oasis:names:tc:opendocument:xmlns:dr3d:1.0": "dr3d",
    "http://purl.org/dc/elements/1.1/": "dc",
    "http://www.w3.org/1998/Math/MathML": "math",
    "urn:oasis:names:tc:opendocument:xmlns:config:1.0": "config",
    "urn:oasis:names:tc:opendocument:xmlns:database:1.0": "db",
}


def qname(el):
    tag = el.tag
    if not isinstance(tag, str) or not tag.startswith("{"):
        return str(tag)
    ns, _, local = tag[1:].partition("}")
    return f"{NSMAP_PREFIX.get(ns, ns)}:{local}"


def f_d6_pretty_leak(plain_paragraph, plain_text, pretty_text):
    """F-D6: pretty-printing leaks indentation into the readable text of a paragraph that
    contains an inline child outside TEXT_CONTENT with an empty tail or with children.
    Claimed only when (1) the plain paragraph has such a descendant and (2) the two readings
    differ by inserted white space only."""
    strip = lambda s: "".join(s.split())  # noqa: E731
    if strip(plain_text) != strip(pretty_text):
        return False
    if len(pretty_text) < len(plain_text):
        return False
    for el in plain_paragraph.iterdescendants():
        if not isinstance(el.tag, str):
            continue
        if qname(el) in TEXT_CONTENT_FROZEN:
            continue
        if not el.tail or len(el) > 0:
            return True
    return False
