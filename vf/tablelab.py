"""Table laboratory: run-length recipes, the O-GRID reference model (DESIGN Appendix A), a
JSON-able operation language with one interpreter for the real odfdo Table and one for the
model, a steering generator, and the read routes used by the C01/C02/C07/C08/C19 monitors.

The model never looks at odfdo; the generator looks at the *encoding* odfdo currently uses
(through O-TABXML on the serialisation) only to aim operations and to name situation classes.
"""

from __future__ import annotations

import copy

from .oracles import tabxml

# --------------------------------------------------------------------------- model


class Grid:
    """Ragged list-of-lists grid with a declared column count W."""

    def __init__(self, rows=None, W=0):
        self.rows = [list(r) for r in (rows or [])]
        self.W = W

    def clone(self):
        return Grid(self.rows, self.W)

    @property
    def H(self):
        return len(self.rows)

    def padded(self):
        return [r + [None] * (self.W - len(r)) for r in self.rows]

    # -- helpers
    def _append_row(self, row):
        if self.W == 0:
            self.W = max(1, len(row))
        self.rows.append(row)
        self.W = max(self.W, len(row))

    def pad_rows(self, n):
        while len(self.rows) < n:
            self._append_row([])

    @staticmethod
    def pad(row, x):
        while len(row) < x:
            row.append(None)

    def _touch(self, row):
        self.W = max(self.W, len(row))

    # -- transitions (arguments already normalised: ints, expanded lists)
    def set_cell(self, x, y, v, r=1):
        self.pad_rows(y + 1)
        row = self.rows[y]
        self.pad(row, x)
        row[x : x + r] = [v] * r
        self._touch(row)

    def set_cells_seq(self, x, y, cells):
        """cells: [(v, r)] laid out from x, advancing by repeat."""
        for v, r in cells:
            self.set_cell(x, y, v, r)
            x += r

    def set_row(self, y, content, r=1):
        if y >= self.H:
            self.pad_rows(y)
            for _ in range(r):
                self._append_row(list(content))
            return
        self.rows[y : y + r] = [list(content) for _ in range(r)]
        self._touch(content)

    def insert_row(self, y, content, r=1):
        if y >= self.H:
            self.pad_rows(y)
            for _ in range(r):
                self._append_row(list(content))
            return
        self.rows[y:y] = [list(content) for _ in range(r)]
        self._touch(content)

    def append_row(self, content, r=1):
        for _ in range(r):
            self._append_row(list(content))

    def delete_row(self, y):
        if y < self.H:
            del self.rows[y]

    def insert_cell(self, x, y, v, r=1):
        self.pad_rows(y + 1)
        row = self.rows[y]
        self.pad(row, x)
        row[x:x] = [v] * r
        self._touch(row)

    def append_cell(self, y, v, r=1):
        self.pad_rows(y + 1)
        row = self.rows[y]
        row.extend([v] * r)
        self._touch(row)

    def delete_cell(self, x, y):
        if y < self.H and x < len(self.rows[y]):
            del self.rows[y][x]

    def set_column(self, x, r=1):
        self.W = max(self.W, x + r)

    def insert_column(self, x, r=1):
        self.W = max(self.W, x) + r
        for row in self.rows:
            if len(row) > x:
                row[x:x] = [None] * r

    def append_column(self, r=1):
        self.W += r

    def delete_column(self, x):
        if x >= self.W:
            return
        self.W -= 1
        for row in self.rows:
            if len(row) > x:
                del row[x]

    def clear(self):
        self.rows = []
        self.W = 0

    # -- reads
    def value(self, x, y):
        if 0 <= y < self.H and 0 <= x < len(self.rows[y]):
            return self.rows[y][x]
        return None

    def area(self, x, y, z, t):
        """Rectangle [x..z] x [y..t] of the padded matrix, clipped to W/H (None = open)."""
        x = 0 if x is None else x
        y = 0 if y is None else y
        zz = self.W - 1 if z is None else min(z, self.W - 1)
        tt = self.H - 1 if t is None else min(t, self.H - 1)
        out = []
        p = self.padded()
        for yy in range(y, tt + 1):
            out.append(p[yy][x : zz + 1])
        return out

    def column(self, x):
        return [r[x] if x < len(r) else None for r in self.rows]


def strip_none(lst):
    lst = list(lst)
    while lst and lst[-1] is None:
        lst.pop()
    return lst


# --------------------------------------------------------------------------- values / args


class Vals:
    """Unique values so that a read identifies the write it observed."""

    def __init__(self, start=1):
        self.n = start

    def new(self, rng, p_none=0.12):
        if rng.random() < p_none:
            return None
        self.n += 1
        if self.n % 5 == 0:
            return f"s{self.n}"
        return self.n


def norm(v):
    """Normalise a value read from odfdo for comparison (Decimal/int equality is native)."""
    return v


def values_equal(a, b):
    if a is None or b is None:
        return a is None and b is None
    if isinstance(a, str) or isinstance(b, str):
        return isinstance(a, str) and isinstance(b, str) and a == b
    try:
        return a == b
    except Exception:
        return False


def matrix_equal(A, B):
    if len(A) != len(B):
        return False
    for ra, rb in zip(A, B):
        if len(ra) != len(rb):
            return False
        for a, b in zip(ra, rb):
            if not values_equal(a, b):
                return False
    return True


def list_equal(a, b):
    return len(a) == len(b) and all(values_equal(p, q) for p, q in zip(a, b))


# --------------------------------------------------------------------------- recipes


def gen_recipe(rng, vals, kind=None):
    """Run-length recipe {"cols":[r..], "rows":[{"r":n,"cells":[{"v":..,"r":n}]}], "extra_cols":k}"""
    kind = kind or rng.choice(["rle", "rle", "rle", "dense", "ragged", "tiny"])
    nrows = {"tiny": rng.randint(1, 2), "dense": rng.randint(2, 4)}.get(kind, rng.randint(1, 4))
    rows = []
    for _ in range(nrows):
        ncells = rng.randint(0 if kind == "ragged" else 1, 4)
        cells = []
        for _ in range(ncells):
            r = 1 if kind == "dense" else rng.choice([1, 1, 2, 3, 4])
            if rng.random() < 0.01:
                r = 40
            cells.append({"v": vals.new(rng, 0.2), "r": r})
        rr = 1 if kind == "dense" else rng.choice([1, 1, 2, 3, 4])
        rows.append({"r": rr, "cells": cells})
    width = max([sum(c["r"] for c in r["cells"]) for r in rows] or [0])
    W = max(1, width + rng.choice([0, 0, 0, 1, 2]))
    # columns declared in runs
    cols = []
    left = W
    while left > 0:
        r = min(left, rng.choice([1, 1, 2, 3, left]))
        cols.append(r)
        left -= r
    return {"cols": cols, "rows": rows}


def recipe_to_grid(recipe):
    rows = []
    for r in recipe["rows"]:
        content = []
        for c in r["cells"]:
            content.extend([c["v"]] * c["r"])
        for _ in range(r["r"]):
            rows.append(list(content))
    return Grid(rows, sum(recipe["cols"]))


def build_table(recipe, name="t"):
    """Build the real table from a recipe through raw element assembly, then re-parse so the
    object under test starts from XML with no prior state."""
    from odfdo import Cell, Column, Element, Row, Table

    t = Table(name)
    for r in recipe["cols"]:
        t._append(Column(repeated=r if r > 1 else None))
    for r in recipe["rows"]:
        row = Row()
        for c in r["cells"]:
            row._append(Cell(c["v"], repeated=c["r"] if c["r"] > 1 else None, style=c.get("style")))
        if r["r"] > 1:
            row._set_repeated(r["r"])
        t._append(row)
    return Element.from_tag(t.serialize(with_ns=True))


# --------------------------------------------------------------------------- coordinates


def alpha(n):
    s = ""
    n += 1
    while n > 0:
        n, rem = divmod(n - 1, 26)
        s = chr(65 + rem) + s
    return s


def coord_form(rng, x, y, W, H, allow_neg=True):
    """Return (coord_as_given, form_tag) for the cell (x, y)."""
    f = rng.random()
    if f < 0.55:
        return [x, y], "tuple"
    if f < 0.85:
        return f"{alpha(x)}{y + 1}", "str"
    if allow_neg and x < W and y < H and W > 0 and H > 0:
        # negative, counted from the current end
        cx = x - W if rng.random() < 0.5 else x
        cy = y - H if (rng.random() < 0.5 or cx == x) else y
        return [cx, cy], "neg"
    return [x, y], "tuple"


# --------------------------------------------------------------------------- shapes (steering / classes)


def run_shape(runs, pos):
    """runs: list of repeats; position -> shape tag."""
    start = 0
    for r in runs:
        if start <= pos < start + r:
            if r == 1:
                return "single"
            if pos == start:
                return "first"
            if pos == start + r - 1:
                return "last"
            return "middle"
        start += r
    if pos == start:
        return "edge"
    return "beyond"


def next_run_repeated(runs, pos):
    start = 0
    for i, r in enumerate(runs):
        if start <= pos < start + r:
            return i + 1 < len(runs) and runs[i + 1] > 1
        start += r
    return False


def spills(runs, pos, r):
    """Does an item of repeat r placed at pos run past the end of the run containing pos?"""
    start = 0
    for rr in runs:
        if start <= pos < start + rr:
            return pos + r > start + rr
        start += rr
    return False


class Encoding:
    """Current run-length encoding of the live table's XML, read by O-TABXML."""

    def __init__(self, table):
        el = tabxml.parse(table.serialize(with_ns=True))
        self.cols, rows = tabxml.rle(el)
        self.row_runs = [r for r, _ in rows]
        self.cell_runs = [[c[0] for c in cells] for _, cells in rows]

    def row_index(self, y):
        start = 0
        for i, r in enumerate(self.row_runs):
            if start <= y < start + r:
                return i
            start += r
        return None

    def cells_of(self, y):
        i = self.row_index(y)
        return self.cell_runs[i] if i is not None else []

    def interesting_rows(self):
        """logical y positions: first/middle/last of repeated runs."""
        out = []
        start = 0
        for r in self.row_runs:
            if r > 1:
                out.extend([start, start + r - 1, start + r // 2])
            start += r
        return out

    def interesting_cells(self, y):
        out = []
        start = 0
        for r in self.cells_of(y):
            if r > 1:
                out.extend([start, start + r - 1, start + r // 2])
            start += r
        return out

    def interesting_cols(self):
        out = []
        start = 0
        for r in self.cols:
            if r > 1:
                out.extend([start, start + r - 1, start + r // 2])
            start += r
        return out


# --------------------------------------------------------------------------- op generation

TABLE_OPS = [
    ("set_value", 10),
    ("set_cell", 10),
    ("set_cells", 4),
    ("set_values", 4),
    ("set_row", 8),
    ("set_row_values", 4),
    ("set_row_cells", 4),
    ("insert_row", 8),
    ("append_row", 4),
    ("extend_rows", 2),
    ("delete_row", 6),
    ("insert_cell", 7),
    ("append_cell", 6),
    ("delete_cell", 6),
    ("set_column", 3),
    ("insert_column", 6),
    ("append_column", 2),
    ("delete_column", 5),
    ("set_column_values", 3),
    ("set_column_cells", 2),
    ("clear", 1),
    ("rowroute", 8),
    ("rowsroute", 3),
    ("live_repeated", 3),
    ("rstrip", 3),
    ("optimize_width", 2),
    ("transpose", 2),
    ("copy_area", 4),
    ("copy_cell", 3),
    ("copy_row", 3),
]


def _pick_weighted(rng, items):
    tot = sum(w for _, w in items)
    k = rng.random() * tot
    for name, w in items:
        k -= w
        if k <= 0:
            return name
    return items[-1][0]


def gen_cell(rng, vals, allow_rep=True):
    r = 1
    if allow_rep and rng.random() < 0.4:
        r = rng.choice([2, 2, 3, 4])
        if rng.random() < 0.02:
            r = 40
    return {"v": vals.new(rng), "r": r}


def gen_row(rng, vals, maxw=5, allow_rep=True):
    n = rng.randint(0, 3)
    cells = [gen_cell(rng, vals) for _ in range(n)]
    # keep rows within a bounded width
    while sum(c["r"] for c in cells) > maxw + 40:
        cells.pop()
    r = 1
    if allow_rep and rng.random() < 0.4:
        r = rng.choice([2, 2, 3, 4])
    return {"cells": cells, "r": r}


def pick_y(rng, grid, enc, allow_beyond=True):
    H = grid.H
    c = rng.random()
    inter = enc.interesting_rows() if enc else []
    if inter and c < 0.45:
        return rng.choice(inter)
    if H and c < 0.75:
        return rng.randrange(H)
    if not allow_beyond:
        return rng.randrange(H) if H else 0
    if c < 0.87:
        return H
    return H + rng.randint(1, 3)


def pick_x(rng, grid, enc, y, allow_beyond=True, ref="row"):
    """x aimed at the cell runs of row y (ref="row") or at the column runs (ref="col")."""
    if ref == "col":
        n = grid.W
        inter = enc.interesting_cols() if enc else []
    else:
        n = len(grid.rows[y]) if y < grid.H else 0
        inter = enc.interesting_cells(y) if (enc and y < grid.H) else []
    c = rng.random()
    if inter and c < 0.45:
        return rng.choice(inter)
    if n and c < 0.75:
        return rng.randrange(n)
    if not allow_beyond:
        return rng.randrange(n) if n else 0
    if c < 0.87:
        return n
    if ref == "row" and grid.W > n and c < 0.93:
        return rng.randrange(n, grid.W)  # inside the table but beyond the row's content
    return n + rng.randint(1, 3)


MAX_H = 14
MAX_W = 14


def gen_op(rng, vals, grid, enc, allow=None):
    """One public operation (see _gen_op); 20 % of the operations that accept it pass
    clone=False with a freshly built argument (the documented fast path)."""
    op = _gen_op(rng, vals, grid, enc, allow)
    if op["op"] in ("set_cell", "set_cells", "set_row", "insert_row", "append_row", "insert_cell", "append_cell") and not op.get("alias") and rng.random() < 0.2:
        op["noclone"] = True
    return op


def _gen_op(rng, vals, grid, enc, allow=None):
    """One public operation, aimed using the encoding; returns a JSON-able dict."""
    for _ in range(50):
        name = _pick_weighted(rng, TABLE_OPS)
        if allow is not None and name not in allow:
            continue
        H, W = grid.H, grid.W
        big = H > MAX_H or W > MAX_W
        if big and name in ("insert_row", "append_row", "extend_rows", "insert_column", "append_column"):
            continue
        if name == "set_value":
            y = pick_y(rng, grid, enc)
            x = pick_x(rng, grid, enc, y)
            c, form = coord_form(rng, x, y, W, H)
            return {"op": name, "coord": c, "form": form, "v": vals.new(rng, 0.05)}
        if name == "set_cell":
            y = pick_y(rng, grid, enc)
            x = pick_x(rng, grid, enc, y)
            c, form = coord_form(rng, x, y, W, H)
            cell = gen_cell(rng, vals) if rng.random() > 0.05 else None
            return {"op": name, "coord": c, "form": form, "cell": cell}
        if name in ("set_cells", "set_values"):
            y = pick_y(rng, grid, enc)
            x = pick_x(rng, grid, enc, y)
            nrows = rng.randint(1, 3)
            if name == "set_cells":
                data = [[gen_cell(rng, vals) for _ in range(rng.randint(0, 3))] for _ in range(nrows)]
            else:
                data = [[vals.new(rng) for _ in range(rng.randint(0, 3))] for _ in range(nrows)]
            c, form = coord_form(rng, x, y, W, H, allow_neg=False)
            if rng.random() < 0.15:
                c, form = None, "none"
            key = "cells" if name == "set_cells" else "values"
            op = {"op": name, "coord": c, "form": form, key: data}
            if name == "set_cells" and rng.random() < 0.3:
                # the same Cell objects used several times (same line for every row / same cell
                # repeated in a line): with the default clone=True the API must copy them
                line = [gen_cell(rng, vals) for _ in range(rng.randint(1, 3))]
                if rng.random() < 0.5:
                    op["cells"] = [line for _ in range(nrows)]
                    op["alias"] = "same-line"
                else:
                    op["cells"] = [[line[0]] * rng.randint(2, 4) for _ in range(nrows)]
                    op["alias"] = "same-cell"
            return op
        if name in ("set_row", "insert_row"):
            y = pick_y(rng, grid, enc)
            row = gen_row(rng, vals) if rng.random() > 0.08 else None
            yy = str(y + 1) if rng.random() < 0.2 else y
            return {"op": name, "y": yy, "row": row}
        if name == "set_row_values":
            y = pick_y(rng, grid, enc)
            return {"op": name, "y": y, "values": [vals.new(rng) for _ in range(rng.randint(0, 4))]}
        if name == "set_row_cells":
            y = pick_y(rng, grid, enc)
            return {"op": name, "y": y, "cells": [gen_cell(rng, vals) for _ in range(rng.randint(0, 3))]}
        if name == "append_row":
            row = gen_row(rng, vals) if rng.random() > 0.1 else None
            return {"op": name, "row": row}
        if name == "extend_rows":
            return {"op": name, "rows": [gen_row(rng, vals) for _ in range(rng.randint(0, 2))]}
        if name == "delete_row":
            y = pick_y(rng, grid, enc)
            if y < H and H and rng.random() < 0.2:
                return {"op": name, "y": y - H}
            return {"op": name, "y": y}
        if name == "insert_cell":
            y = pick_y(rng, grid, enc)
            x = pick_x(rng, grid, enc, y)
            c, form = coord_form(rng, x, y, W, H)
            cell = gen_cell(rng, vals) if rng.random() > 0.08 else None
            return {"op": name, "coord": c, "form": form, "cell": cell}
        if name == "append_cell":
            y = pick_y(rng, grid, enc)
            cell = gen_cell(rng, vals) if rng.random() > 0.08 else None
            return {"op": name, "y": y, "cell": cell}
        if name == "delete_cell":
            y = pick_y(rng, grid, enc)
            x = pick_x(rng, grid, enc, y)
            c, form = coord_form(rng, x, y, W, H)
            return {"op": name, "coord": c, "form": form}
        if name in ("set_column", "insert_column"):
            x = pick_x(rng, grid, enc, 0, ref="col")
            r = rng.choice([1, 1, 2, 3])
            xx = alpha(x) if rng.random() < 0.2 else x
            return {"op": name, "x": xx, "r": r}
        if name == "append_column":
            return {"op": name, "r": rng.choice([1, 1, 2, 3])}
        if name == "delete_column":
            if W < 2:
                continue  # deleting the last declared column is out of contract (C07 note)
            x = pick_x(rng, grid, enc, 0, ref="col")
            if x < W and rng.random() < 0.2:
                return {"op": name, "x": x - W}
            return {"op": name, "x": x}
        if name in ("set_column_values", "set_column_cells"):
            if W == 0 or H == 0 or H > 10:
                continue
            x = pick_x(rng, grid, enc, 0, ref="col")
            n = H if rng.random() > 0.05 else H + 1
            if name == "set_column_values":
                return {"op": name, "x": x, "values": [vals.new(rng) for _ in range(n)]}
            return {"op": name, "x": x, "cells": [gen_cell(rng, vals, allow_rep=False) for _ in range(n)]}
        if name == "clear":
            return {"op": name}
        if name == "copy_area":
            # read an area with get_cells(), write it back elsewhere with set_cells()
            if not (W and H):
                continue
            y = pick_y(rng, grid, enc, allow_beyond=False)
            x = pick_x(rng, grid, enc, y, allow_beyond=False)
            z = min(x + rng.choice([0, 1, 2]), W - 1)
            t2 = min(y + rng.choice([0, 0, 1, 2]), H - 1)
            dy = pick_y(rng, grid, enc)
            dx = pick_x(rng, grid, enc, dy)
            return {"op": name, "area": [x, y, z, t2], "to": [dx, dy], "flat_row": rng.random() < 0.3}
        if name == "copy_cell":
            if not (W and H):
                continue
            y = pick_y(rng, grid, enc, allow_beyond=False)
            x = pick_x(rng, grid, enc, y)
            dy = pick_y(rng, grid, enc)
            dx = pick_x(rng, grid, enc, dy)
            return {"op": name, "from": [x, y], "to": [dx, dy], "keep_repeated": rng.choice([True, True, False])}
        if name == "copy_row":
            if not H:
                continue
            return {"op": name, "from": pick_y(rng, grid, enc), "to": pick_y(rng, grid, enc), "how": rng.choice(["set_row", "insert_row", "append_row"])}
        if name == "rstrip":
            return {"op": name, "aggressive": rng.random() < 0.5}
        if name in ("optimize_width", "transpose"):
            if name == "transpose" and (H > MAX_H or W > MAX_W or max([len(r) for r in grid.rows] or [0]) > MAX_H):
                continue
            return {"op": name}
        if name == "rowroute":
            y = pick_y(rng, grid, enc)
            subs = []
            rowlen = len(grid.rows[y]) if y < H else 0
            for _ in range(rng.randint(1, 3)):
                k = rng.choice(["set_cell", "set_value", "insert_cell", "append_cell", "delete_cell", "set_values", "set_cells"])
                if enc and y < H and rng.random() < 0.5 and enc.interesting_cells(y):
                    x = rng.choice(enc.interesting_cells(y))
                else:
                    x = rng.randint(0, rowlen + 2)
                if k == "set_cell":
                    subs.append({"op": k, "x": x, "cell": gen_cell(rng, vals)})
                elif k == "set_value":
                    subs.append({"op": k, "x": alpha(x) if rng.random() < 0.2 else x, "v": vals.new(rng)})
                elif k == "insert_cell":
                    subs.append({"op": k, "x": x, "cell": gen_cell(rng, vals)})
                elif k == "append_cell":
                    subs.append({"op": k, "cell": gen_cell(rng, vals)})
                elif k == "delete_cell":
                    subs.append({"op": k, "x": x})
                elif k == "set_values":
                    subs.append({"op": k, "start": x if rng.random() < 0.7 else 0, "values": [vals.new(rng) for _ in range(rng.randint(0, 4))]})
                else:
                    subs.append({"op": k, "start": x if rng.random() < 0.7 else 0, "cells": [gen_cell(rng, vals) for _ in range(rng.randint(0, 3))]})
            return {"op": name, "y": y, "subs": subs}
        if name == "rowsroute":
            # several rows read together (copies), edited differently, pushed back one by one
            if H < 2:
                continue
            y1 = pick_y(rng, grid, enc, allow_beyond=False)
            cand = [y1 + 1, y1 - 1, rng.randrange(H)]
            y2 = next((y for y in cand if 0 <= y < H and y != y1), None)
            if y2 is None:
                continue
            edits = [{"y": y, "x": rng.randint(0, max(len(grid.rows[y]), 1)), "v": vals.new(rng)} for y in (y1, y2)]
            return {"op": name, "getter": rng.choice(["get_rows", "traverse", "rows", "get_rows(area)"]), "edits": edits}
        if name == "live_repeated":
            kind = "row"  # live Column/Cell repeat edits are out of contract (DESIGN C02)
            n = rng.choice([None, 1, 2, 3, 4])
            if kind == "row":
                if H == 0:
                    continue
                return {"op": name, "kind": kind, "y": pick_y(rng, grid, enc, allow_beyond=False), "n": n}
            if kind == "column":
                if W == 0:
                    continue
                if n in (None, 1) and W < 2:
                    continue
                return {"op": name, "kind": kind, "x": pick_x(rng, grid, enc, 0, allow_beyond=False, ref="col"), "n": n}
            if H == 0:
                continue
            y = pick_y(rng, grid, enc, allow_beyond=False)
            if not grid.rows[y]:
                continue
            return {"op": name, "kind": kind, "y": y, "x": pick_x(rng, grid, enc, y, allow_beyond=False), "n": n}
    return {"op": "set_value", "coord": [0, 0], "form": "tuple", "v": vals.new(rng, 0)}


# --------------------------------------------------------------------------- interpreters


def _norm_y(y, H):
    if isinstance(y, str):
        return int(y) - 1
    if y < 0:
        return H + y
    return y


def _norm_x(x, W):
    if isinstance(x, str):
        n = 0
        for ch in x:
            n = n * 26 + (ord(ch) - 64)
        return n - 1
    if x < 0:
        return W + x
    return x


def _norm_coord(coord, W, H):
    if coord is None:
        return 0, 0
    if isinstance(coord, str):
        import re

        m = re.match(r"^([A-Z]+)([0-9]+)$", coord)
        return _norm_x(m.group(1), W), int(m.group(2)) - 1
    x, y = coord[0], coord[1]
    return (W + x if x < 0 else x), (H + y if y < 0 else y)


def _expand_cells(cells):
    out = []
    for c in cells:
        out.extend([c["v"]] * c["r"])
    return out


def TL_strip(row):
    return strip_none(row)


class ModelLaw(Exception):
    """A law the operation must satisfy was broken (used where the exact result is the
    implementation's choice)."""


class ModelError(Exception):
    """The model expects the real call to raise this exception type."""

    def __init__(self, exc_type):
        self.exc_type = exc_type


def apply_model(g: Grid, op, observed=None):
    """Advance the model.  `observed` carries facts read from the real object that the contract
    lets the implementation choose (the repeat carried by a row returned by get_row, the run
    covered by a live element)."""
    o = op["op"]
    W, H = g.W, g.H
    if o == "set_value":
        x, y = _norm_coord(op["coord"], W, H)
        g.set_cell(x, y, op["v"], 1)
    elif o == "set_cell":
        x, y = _norm_coord(op["coord"], W, H)
        c = op["cell"] or {"v": None, "r": 1}
        g.set_cell(x, y, c["v"], c["r"])
    elif o == "set_cells":
        x, y = _norm_coord(op["coord"], W, H)
        for j, cells in enumerate(op["cells"]):
            if not cells:
                continue
            g.pad_rows(y + j + 1)
            g.set_cells_seq(x, y + j, [(c["v"], c["r"]) for c in cells])
    elif o == "set_values":
        x, y = _norm_coord(op["coord"], W, H)
        for j, vs in enumerate(op["values"]):
            if not vs:
                continue
            g.pad_rows(y + j + 1)
            g.set_cells_seq(x, y + j, [(v, 1) for v in vs])
    elif o == "set_row":
        y = _norm_y(op["y"], H)
        row = op["row"] or {"cells": [], "r": 1}
        g.set_row(y, _expand_cells(row["cells"]), row["r"])
    elif o == "set_row_values":
        g.set_row(_norm_y(op["y"], H), list(op["values"]), 1)
    elif o == "set_row_cells":
        g.set_row(_norm_y(op["y"], H), _expand_cells(op["cells"]), 1)
    elif o == "insert_row":
        y = _norm_y(op["y"], H)
        row = op["row"] or {"cells": [], "r": 1}
        g.insert_row(y, _expand_cells(row["cells"]), row["r"])
    elif o == "append_row":
        row = op["row"] or {"cells": [], "r": 1}
        g.append_row(_expand_cells(row["cells"]), row["r"])
    elif o == "extend_rows":
        for row in op["rows"]:
            g.append_row(_expand_cells(row["cells"]), row["r"])
    elif o == "delete_row":
        g.delete_row(_norm_y(op["y"], H))
    elif o == "insert_cell":
        x, y = _norm_coord(op["coord"], W, H)
        c = op["cell"] or {"v": None, "r": 1}
        g.insert_cell(x, y, c["v"], c["r"])
    elif o == "append_cell":
        c = op["cell"] or {"v": None, "r": 1}
        g.append_cell(_norm_y(op["y"], H), c["v"], c["r"])
    elif o == "delete_cell":
        x, y = _norm_coord(op["coord"], W, H)
        g.delete_cell(x, y)
    elif o == "set_column":
        g.set_column(_norm_x(op["x"], W), op["r"])
    elif o == "insert_column":
        g.insert_column(_norm_x(op["x"], W), op["r"])
    elif o == "append_column":
        g.append_column(op["r"])
    elif o == "delete_column":
        g.delete_column(_norm_x(op["x"], W))
    elif o in ("set_column_values", "set_column_cells"):
        data = op["values"] if o == "set_column_values" else [c["v"] for c in op["cells"]]
        if len(data) != H:
            raise ModelError(ValueError)
        x = _norm_x(op["x"], W)
        for y, v in enumerate(data):
            g.set_cell(x, y, v, 1)
    elif o == "clear":
        g.clear()
    elif o == "copy_area":
        x, y, z, t2 = op["area"]
        dx, dy = op["to"]
        src = [list(g.rows[yy][x : z + 1]) for yy in range(y, min(t2, H - 1) + 1)]
        if op.get("flat_row"):
            src = [[v for r in src for v in r]]
        for j, vals_ in enumerate(src):
            if not vals_:
                continue
            g.pad_rows(dy + j + 1)
            g.set_cells_seq(dx, dy + j, [(v, 1) for v in vals_])
    elif o == "copy_cell":
        x, y = op["from"]
        dx, dy = op["to"]
        g.set_cell(dx, dy, g.value(x, y), (observed or {}).get("cell_repeat", 1))
    elif o == "copy_row":
        src = list(g.rows[op["from"]]) if op["from"] < H else []
        rr = (observed or {}).get("row_repeat", 1)
        if op["how"] == "set_row":
            g.set_row(op["to"], src, rr)
        elif op["how"] == "insert_row":
            g.insert_row(op["to"], src, rr)
        else:
            g.append_row(src, rr)
    elif o == "rstrip":
        # no styled or ""-valued cells are generated, so aggressive or not is the same grid
        while g.rows and all(v is None for v in g.rows[-1]):
            g.rows.pop()
        for row in g.rows:
            while row and row[-1] is None:
                row.pop()
        g.W = min(g.W, max([len(r) for r in g.rows] or [0]))
    elif o == "transpose":
        old = g.rows
        n = max([len(r) for r in old] or [0])
        g.clear()
        for x in range(n):
            g._append_row([r[x] if x < len(r) else None for r in old])
    elif o == "optimize_width":
        # the result depends on how trailing empties are run-length encoded: the model is
        # re-synchronised from the independent expansion after the C17 law has been checked
        W, rows = observed["resync"]
        before = [TL_strip(r) for r in g.rows]
        while before and not before[-1]:
            before.pop()
        after = [TL_strip(r) for r in rows]
        while after and not after[-1]:
            after.pop()
        if before != after:
            raise ModelLaw("optimize_width moved or removed a non-empty value", before, after)
        g.rows = [list(r) for r in rows]
        g.W = W
    elif o == "rowroute":
        y = op["y"]
        content = list(g.rows[y]) if y < H else []
        for s in op["subs"]:
            k = s["op"]
            if k == "set_cell":
                Grid.pad(content, s["x"])
                content[s["x"] : s["x"] + s["cell"]["r"]] = [s["cell"]["v"]] * s["cell"]["r"]
            elif k == "set_value":
                x = _norm_x(s["x"], len(content))
                Grid.pad(content, x)
                content[x : x + 1] = [s["v"]]
            elif k == "insert_cell":
                Grid.pad(content, s["x"])
                content[s["x"] : s["x"]] = [s["cell"]["v"]] * s["cell"]["r"]
            elif k == "append_cell":
                content.extend([s["cell"]["v"]] * s["cell"]["r"])
            elif k == "delete_cell":
                if s["x"] < len(content):
                    del content[s["x"]]
            elif k == "set_values":
                x = s["start"]
                for v in s["values"]:
                    Grid.pad(content, x)
                    content[x : x + 1] = [v]
                    x += 1
            elif k == "set_cells":
                x = s["start"]
                for c in s["cells"]:
                    Grid.pad(content, x)
                    content[x : x + c["r"]] = [c["v"]] * c["r"]
                    x += c["r"]
        rr = (observed or {}).get("row_repeat", 1)
        g.set_row(y, content, rr)
    elif o == "rowsroute":
        for e in op["edits"]:
            content = list(g.rows[e["y"]])
            Grid.pad(content, e["x"])
            content[e["x"] : e["x"] + 1] = [e["v"]]
            g.set_row(e["y"], content, 1)
    elif o == "live_repeated":
        n = max(op["n"] or 1, 1)
        a, b = observed["run"]  # logical span [a, b] covered by the live element
        if op["kind"] == "row":
            g.rows[a : b + 1] = [list(g.rows[a]) for _ in range(n)]
        elif op["kind"] == "column":
            g.W += n - (b - a + 1)
        else:
            row = g.rows[op["y"]]
            row[a : b + 1] = [row[a]] * n
            g._touch(row)
    else:
        raise KeyError(o)


def mk_cell(c):
    from odfdo import Cell

    if c is None:
        return None
    return Cell(c["v"], repeated=c["r"] if c["r"] > 1 else None)


def mk_row(r):
    from odfdo import Row

    if r is None:
        return None
    row = Row()
    for c in r["cells"]:
        row.append_cell(mk_cell(c), clone=False)
    if r["r"] > 1:
        row.repeated = r["r"]
    return row


def _co(coord):
    return tuple(coord) if isinstance(coord, list) else coord


def _span(runs, pos):
    start = 0
    for r in runs:
        if start <= pos < start + r:
            return start, start + r - 1
        start += r
    return None


_XP_ROWS = "table:table-row|table:table-rows/table:table-row|table:table-header-rows/table:table-row"
_XP_COLS = "table:table-column|table:table-columns/table:table-column|table:table-header-columns/table:table-column"


def apply_real(t, op, observed):
    """Apply op to the real table through the public API. Fills `observed`."""
    from odfdo import Column

    o = op["op"]
    if o == "set_value":
        t.set_value(_co(op["coord"]), op["v"])
    elif o == "set_cell":
        if op.get("noclone") and op["cell"] is not None:
            t.set_cell(_co(op["coord"]), mk_cell(op["cell"]), clone=False)
        else:
            t.set_cell(_co(op["coord"]), mk_cell(op["cell"]))
    elif o == "set_cells":
        if op.get("alias") == "same-line":
            line = [mk_cell(c) for c in op["cells"][0]]
            cells = [line for _ in op["cells"]]
        elif op.get("alias") == "same-cell":
            one = mk_cell(op["cells"][0][0])
            cells = [[one] * len(row) for row in op["cells"]]
        else:
            cells = [[mk_cell(c) for c in row] for row in op["cells"]]
        kw = {"clone": False} if op.get("noclone") else {}
        if op["coord"] is None:
            t.set_cells(cells, **kw)
        else:
            t.set_cells(cells, _co(op["coord"]), **kw)
    elif o == "set_values":
        if op["coord"] is None:
            t.set_values(op["values"])
        else:
            t.set_values(op["values"], _co(op["coord"]))
    elif o == "set_row":
        if op.get("noclone") and op["row"] is not None:
            t.set_row(op["y"], mk_row(op["row"]), clone=False)
        else:
            t.set_row(op["y"], mk_row(op["row"]))
    elif o == "set_row_values":
        t.set_row_values(op["y"], op["values"])
    elif o == "set_row_cells":
        t.set_row_cells(op["y"], [mk_cell(c) for c in op["cells"]])
    elif o == "insert_row":
        if op.get("noclone") and op["row"] is not None:
            t.insert_row(op["y"], mk_row(op["row"]), clone=False)
        else:
            t.insert_row(op["y"], mk_row(op["row"]))
    elif o == "append_row":
        if op.get("noclone") and op["row"] is not None:
            t.append_row(mk_row(op["row"]), clone=False)
        else:
            t.append_row(mk_row(op["row"]))
    elif o == "extend_rows":
        t.extend_rows([mk_row(r) for r in op["rows"]])
    elif o == "delete_row":
        t.delete_row(op["y"])
    elif o == "insert_cell":
        if op.get("noclone") and op["cell"] is not None:
            t.insert_cell(_co(op["coord"]), mk_cell(op["cell"]), clone=False)
        else:
            t.insert_cell(_co(op["coord"]), mk_cell(op["cell"]))
    elif o == "append_cell":
        if op.get("noclone") and op["cell"] is not None:
            t.append_cell(op["y"], mk_cell(op["cell"]), clone=False)
        else:
            t.append_cell(op["y"], mk_cell(op["cell"]))
    elif o == "delete_cell":
        t.delete_cell(_co(op["coord"]))
    elif o in ("set_column", "insert_column", "append_column"):
        # the caller keeps one Column object per shape and hands it in again and again: what it hands in stays
        # its own (the setters copy), so the same object may be given any number of times
        held = t.__dict__.setdefault("_vf_columns", {})
        col = held.get(op["r"])
        if col is None:
            col = held[op["r"]] = Column(repeated=op["r"] if op["r"] > 1 else None)
        was = col.serialize()
        if o == "set_column":
            t.set_column(op["x"], col)
        elif o == "insert_column":
            t.insert_column(op["x"], col)
        else:
            t.append_column(col)
        if col.serialize() != was or (col.parent is not None and col.parent.tag == "table:table"):
            raise AssertionError(f"the Column given to {o} was changed or taken by the table")
    elif o == "delete_column":
        t.delete_column(op["x"])
    elif o == "set_column_values":
        t.set_column_values(op["x"], op["values"])
    elif o == "set_column_cells":
        t.set_column_cells(op["x"], [mk_cell(c) for c in op["cells"]])
    elif o == "clear":
        t.clear()
    elif o == "copy_area":
        got = t.get_cells(tuple(op["area"]), flat=bool(op.get("flat_row")))
        if op.get("flat_row"):
            got = [got]
        t.set_cells(got, tuple(op["to"]))
    elif o == "copy_cell":
        c = t.get_cell(tuple(op["from"]), keep_repeated=op["keep_repeated"])
        observed["cell_repeat"] = c.repeated or 1
        if not op["keep_repeated"] and observed["cell_repeat"] != 1:
            raise AssertionError(f"get_cell(keep_repeated=False) returned repeated={c.repeated}")
        t.set_cell(tuple(op["to"]), c)
    elif o == "copy_row":
        r = t.get_row(op["from"])
        observed["row_repeat"] = r.repeated or 1
        if op["how"] == "set_row":
            t.set_row(op["to"], r)
        elif op["how"] == "insert_row":
            t.insert_row(op["to"], r)
        else:
            t.append_row(r)
    elif o == "rstrip":
        t.rstrip(aggressive=op["aggressive"])
    elif o == "transpose":
        t.transpose()
    elif o == "optimize_width":
        t.optimize_width()
        observed["resync"] = tabxml.expand(tabxml.parse(t.serialize(with_ns=True)))
    elif o == "rowroute":
        row = t.get_row(op["y"])
        for s in op["subs"]:
            k = s["op"]
            if k == "set_cell":
                row.set_cell(s["x"], mk_cell(s["cell"]))
            elif k == "set_value":
                row.set_value(s["x"], s["v"])
            elif k == "insert_cell":
                row.insert_cell(s["x"], mk_cell(s["cell"]))
            elif k == "append_cell":
                row.append_cell(mk_cell(s["cell"]))
            elif k == "delete_cell":
                row.delete_cell(s["x"])
            elif k == "set_values":
                row.set_values(s["values"], start=s["start"])
            elif k == "set_cells":
                row.set_cells([mk_cell(c) for c in s["cells"]], start=s["start"])
        observed["row_repeat"] = row.repeated or 1
        t.set_row(op["y"], row)
    elif o == "rowsroute":
        g_ = op["getter"]
        if g_ == "get_rows":
            rows = t.get_rows()
        elif g_ == "traverse":
            rows = list(t.traverse())
        elif g_ == "rows":
            rows = list(t.rows)
        else:
            rows = t.get_rows((0, 0, max(t.width - 1, 0), max(t.height - 1, 0)))
        for e in op["edits"]:
            rows[e["y"]].set_value(e["x"], e["v"])
        for e in op["edits"]:
            t.set_row(e["y"], rows[e["y"]])
    elif o == "live_repeated":
        # the access path the repository's own tests use for live items: get_elements on the
        # cached element (the item then shares the owner's position map)
        enc = Encoding(t)
        if op["kind"] == "row":
            observed["run"] = _span(enc.row_runs, op["y"])
            t.get_elements(_XP_ROWS)[enc.row_index(op["y"])].repeated = op["n"]
        elif op["kind"] == "column":
            observed["run"] = _span(enc.cols, op["x"])
            start = 0
            for i, r in enumerate(enc.cols):
                if start <= op["x"] < start + r:
                    break
                start += r
            t.get_elements(_XP_COLS)[i].repeated = op["n"]
        else:
            raise KeyError("live cell repeat is not generated (DESIGN C02, out of reach)")
    else:
        raise KeyError(o)


# --------------------------------------------------------------------------- situation classes


def classify(op, grid, enc):
    """Situation class of an operation in the current state: (op, row-shape, cell/col-shape,
    arg repeat>1, spills into next run, next run repeated)."""
    o = op["op"]
    W, H = grid.W, grid.H
    rs = cs = "-"
    rep = 1
    sp = nx = False
    try:
        if "coord" in op:
            x, y = _norm_coord(op["coord"], W, H)
            rs = run_shape(enc.row_runs, y)
            cs = run_shape(enc.cells_of(y), x) if y < H else "norow"
            c = op.get("cell") or {}
            rep = c.get("r", 1)
            if y < H:
                sp = spills(enc.cells_of(y), x, rep)
                nx = next_run_repeated(enc.cells_of(y), x)
        elif "y" in op and o != "live_repeated":
            y = _norm_y(op["y"], H)
            rs = run_shape(enc.row_runs, y)
            r = op.get("row") or {}
            rep = r.get("r", 1) if isinstance(r, dict) else 1
            if "cell" in op and op["cell"]:
                rep = op["cell"]["r"]
            if o in ("set_row",):
                sp = spills(enc.row_runs, y, rep)
                nx = next_run_repeated(enc.row_runs, y)
        elif "x" in op and o != "live_repeated":
            x = _norm_x(op["x"], W)
            cs = run_shape(enc.cols, x)
            rep = op.get("r", 1)
            if o == "set_column":
                sp = spills(enc.cols, x, rep)
                nx = next_run_repeated(enc.cols, x)
        elif o == "live_repeated":
            rs = op["kind"]
            rep = op["n"] or 0
        elif o == "rowsroute":
            ys = [e["y"] for e in op["edits"]]
            rs = run_shape(enc.row_runs, ys[0]) + ("+same-run" if _span(enc.row_runs, ys[0]) == _span(enc.row_runs, ys[1]) else "+other-run") + ":" + op["getter"]
    except Exception:
        pass
    key = f"{o}{'(clone=False)' if op.get('noclone') else ''}|row={rs}|cell={cs}|rep={'>1' if rep > 1 else '1'}|spill={int(sp)}|nextrep={int(nx)}"
    trivial = rs in ("single", "-") and cs in ("single", "-") and rep == 1 and not sp
    return key, not trivial


# --------------------------------------------------------------------------- observation routes


def live_matrix(t):
    return [list(r) for r in t.get_values()]


def observe_basic(t):
    """The reads every monitor needs: size and the full matrix (bounded tables only)."""
    return {"size": tuple(t.size), "width": t.width, "height": t.height, "values": live_matrix(t)}


def fresh(t):
    """A table parsed from the serialisation, with no prior state."""
    from odfdo import Element

    return Element.from_tag(t.serialize(with_ns=True))
