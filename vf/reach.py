"""Reach monitor: sys.monitoring (PY_START + LINE) armed only on the anchored code objects.

Resolves functions by qualified name at run time, so it survives edits; records calls and
the set of distinct executed lines (relative to the function's first line)."""
import importlib
import sys

TOOL = 3


def _resolve(modname, qual):
    try:
        obj = importlib.import_module(modname)
        for part in qual.split("."):
            obj = obj.__dict__[part] if isinstance(obj, type) else getattr(obj, part)
        if isinstance(obj, property):
            obj = obj.fget
        if isinstance(obj, (staticmethod, classmethod)):
            obj = obj.__func__
        obj = getattr(obj, "__wrapped__", obj)
        return obj.__code__
    except Exception:
        return None


class Reach:
    def __init__(self, spec):
        self.spec = spec
        self.codes = {}
        self.stats = {}
        self.active = False

    def start(self):
        mon = getattr(sys, "monitoring", None)
        for m, q, _req in self.spec:
            fn = f"{m}:{q}"
            code = _resolve(m, q)
            nlines = 0
            if code is not None:
                nlines = len({ln for _s, _e, ln in code.co_lines() if ln is not None})
                self.codes[code] = fn
            self.stats[fn] = {"calls": 0, "lines": set(), "resolved": code is not None, "nlines": nlines}
        if mon is None or not self.codes:
            return
        try:
            mon.use_tool_id(TOOL, "vf-reach")
        except ValueError:
            return
        E = mon.events
        stats, codes = self.stats, self.codes

        def on_start(code, off):
            fn = codes.get(code)
            if fn:
                stats[fn]["calls"] += 1

        def on_line(code, line):
            fn = codes.get(code)
            if fn:
                s = stats[fn]["lines"]
                rel = line - code.co_firstlineno
                s.add(rel)
                return mon.DISABLE

        mon.register_callback(TOOL, E.PY_START, on_start)
        mon.register_callback(TOOL, E.LINE, on_line)
        for code in self.codes:
            mon.set_local_events(TOOL, code, E.PY_START | E.LINE)
        self.active = True

    def stop(self):
        if not self.active:
            return
        mon = sys.monitoring
        for code in self.codes:
            try:
                mon.set_local_events(TOOL, code, 0)
            except Exception:
                pass
        mon.free_tool_id(TOOL)
        self.active = False

    def report(self):
        return {
            fn: {"calls": d["calls"], "lines": sorted(d["lines"]), "resolved": d["resolved"], "nlines": d["nlines"]}
            for fn, d in self.stats.items()
        }
