"""History driver for the table monitors (C01, C02, C07 share it).

A *case* is JSON: {"init": {...}, "steps": [{"warm": [...], "op": {...}, "reads": seed}]}.
It can be generated (steered by the current encoding) or replayed verbatim."""

from __future__ import annotations

import os

from . import tablelab as TL
from .oracles import tabxml

SAMPLES = os.path.join(os.environ.get("VF_REPO", "/repo"), "tests", "samples")

# (file, table index) of small sample tables usable as initial states
ODS_TABLES = [
    ("simple_table.ods", 0),
    ("minimal_hidden.ods", 0),
    ("table.odt", 0),
    ("lpod_styles.odt", 0),
]


def gen_init(rng, vals):
    k = rng.random()
    if k < 0.08:
        return {"kind": "empty"}
    if k < 0.16:
        return {"kind": "wh", "w": rng.randint(1, 4), "h": rng.randint(1, 4)}
    if k < 0.24:
        f, i = rng.choice(ODS_TABLES)
        return {"kind": "ods", "file": f, "index": i}
    init = {"kind": "recipe", "recipe": TL.gen_recipe(rng, vals)}
    if rng.random() < 0.15:
        init["via_document"] = True
    return init


def make_initial(init):
    """-> (table, grid) ; grid seeded from the recipe, or (for files) from the independent
    expansion of the table's XML."""
    from odfdo import Document, Table

    kind = init["kind"]
    if kind == "empty":
        return Table("t"), TL.Grid([], 0)
    if kind == "wh":
        return Table("t", init["w"], init["h"]), TL.Grid([[None] * init["w"] for _ in range(init["h"])], init["w"])
    if kind == "recipe":
        t = TL.build_table(init["recipe"])
        if init.get("via_document"):
            import io

            doc = Document("spreadsheet")
            doc.body.clear()
            doc.body.append(t)
            buf = io.BytesIO()
            doc.save(buf)
            buf.seek(0)
            doc2 = Document(buf)
            t = doc2.body.get_table(0)
            t._vf_doc = doc2  # keep the owning document for save/reload checks
        return t, TL.recipe_to_grid(init["recipe"])
    if kind == "ods":
        doc = Document(os.path.join(SAMPLES, init["file"]))
        t = doc.body.get_tables()[init["index"]]
        t._vf_doc = doc
        exp = tabxml.expand(tabxml.parse(t.serialize(with_ns=True)))
        if exp is None:
            raise ValueError("sample table too big")
        W, rows = exp
        return t, TL.Grid(rows, W)
    raise KeyError(kind)


# --------------------------------------------------------------------------- cache warming reads

WARMERS = ["get_row", "get_cell", "traverse", "get_column", "traverse_columns", "get_row_live", "get_values", "row_traverse", "get_column_cells"]


def gen_warm(rng, grid):
    n = rng.choice([0, 1, 1, 2])
    out = []
    for _ in range(n):
        w = rng.choice(WARMERS)
        y = rng.randrange(grid.H) if grid.H else 0
        x = rng.randrange(grid.W) if grid.W else 0
        out.append({"w": w, "x": x, "y": y})
    return out


def do_warm(t, warm):
    for w in warm:
        k, x, y = w["w"], w["x"], w["y"]
        if k == "get_row":
            t.get_row(y)
        elif k == "get_row_live":
            t.get_row(y, clone=False).get_cell(x, clone=False)
        elif k == "get_cell":
            t.get_cell((x, y))
        elif k == "traverse":
            for r in t.traverse():
                pass
        elif k == "row_traverse":
            for r in t.traverse():
                for _c in r.traverse():
                    pass
        elif k == "get_column":
            t.get_column(x)
        elif k == "traverse_columns":
            for _c in t.traverse_columns():
                pass
        elif k == "get_values":
            t.get_values()
        elif k == "get_column_cells":
            t.get_column_cells(x)


# --------------------------------------------------------------------------- read routes (C01)


def check_reads(t, g, rng, full=True):
    """Compare every read route of the live table with the model. -> [(mechanism, detail)]"""
    out = []
    W, H = g.W, g.H

    def bad(route, got, exp):
        out.append((f"read:{route}", {"got": got, "expected": exp}))

    try:
        size = tuple(t.size)
        if size != (W, H) or t.width != W or t.height != H:
            bad("size", [size, t.width, t.height], [W, H])
        vals = [list(r) for r in t.get_values()]
        if not TL.matrix_equal(vals, g.padded()):
            bad("get_values", vals, g.padded())
        if not full:
            return out
        # a sample of coordinates, inside, at the edge, beyond
        coords = []
        for _ in range(4):
            coords.append((rng.randint(0, W + 1), rng.randint(0, H + 1)))
        if H and W:
            coords.append((W - 1, H - 1))
            coords.append((0, 0))
        for x, y in coords:
            form = rng.choice(["t", "s"])
            c = (x, y) if form == "t" else f"{TL.alpha(x)}{y + 1}"
            v = t.get_value(c)
            if not TL.values_equal(v, g.value(x, y)):
                bad("get_value", {"coord": c, "v": v}, g.value(x, y))
            cell = t.get_cell(c)
            if not TL.values_equal(cell.value, g.value(x, y)):
                bad("get_cell", {"coord": c, "v": cell.value}, g.value(x, y))
        ys = list(range(H)) if H <= 6 else rng.sample(range(H), 6)
        ys.append(H + 1)
        for y in ys:
            exp = g.rows[y] if y < H else []
            row = t.get_row(y)
            rv = row.get_values()
            if not TL.list_equal(TL.strip_none(rv), TL.strip_none(exp)):
                bad("get_row.get_values", {"y": y, "v": rv}, exp)
            if y < H:
                rv2 = t.get_row_values(y)
                if not TL.list_equal(rv2, exp + [None] * (W - len(exp))):
                    bad("get_row_values", {"y": y, "v": rv2}, exp + [None] * (W - len(exp)))
        xs = list(range(W)) if W <= 5 else rng.sample(range(W), 5)
        for x in xs:
            cv = t.get_column_values(x)
            if not TL.list_equal(cv, g.column(x)):
                bad("get_column_values", {"x": x, "v": cv}, g.column(x))
            cc = [c.value if c is not None else None for c in t.get_column_cells(x)]
            if not TL.list_equal(cc, g.column(x)):
                bad("get_column_cells", {"x": x, "v": cc}, g.column(x))
        # areas
        if W and H:
            x = rng.randrange(W)
            y = rng.randrange(H)
            z = rng.randint(x, W + 1)
            tt = rng.randint(y, H + 1)
            form = rng.choice(["t", "s", "n"])
            area = (x, y, z, tt) if form == "t" else f"{TL.alpha(x)}{y + 1}:{TL.alpha(z)}{tt + 1}"
            if form == "n":
                # the same area with every in-range bound counted from the end (columns against the width,
                # rows against the height)
                area = (x - W, y - H, z - W if z < W else z, tt - H if tt < H else tt)
            av = [list(r) for r in t.get_values(area)]
            if not TL.matrix_equal(av, g.area(x, y, z, tt)):
                bad("get_values(area)", {"area": area, "v": av}, g.area(x, y, z, tt))
        iv = [list(r) for r in t.iter_values()]
        if not TL.matrix_equal(iv, g.padded()):
            bad("iter_values", iv, g.padded())
        tv = [TL.strip_none(r.get_values()) for r in t.traverse()]
        ev = [TL.strip_none(r) for r in g.rows]
        if not TL.matrix_equal(tv, ev):
            bad("traverse", tv, ev)
        rw = [r.width for r in t.traverse()]
        if any(w > W for w in rw) or [w for w in rw] != [len(r) for r in g.rows]:
            # Row.width is compared with the explicit length (modulo nothing: widths are exact)
            bad("Row.width", rw, [len(r) for r in g.rows])
        fl = t.get_values(flat=True)
        ef = [v for r in g.padded() for v in r]
        if not TL.list_equal(list(fl), ef):
            bad("get_values(flat)", fl, ef)
    except Exception as e:  # a read that raises is a failed read
        import traceback

        out.append((f"read-raised:{type(e).__name__}", {"exc": repr(e), "tb": traceback.format_exc()[-1200:]}))
    return out


# --------------------------------------------------------------------------- the driver


class Step:
    __slots__ = ("op", "warm", "cls", "nontrivial", "exc", "expected_exc")


def run_case(case, on_step, gen=None):
    """Execute a case (replay) or generate one (gen = (rng, vals, nsteps, warm_p)).

    on_step(i, t, g, op, info) -> list of (mechanism, detail) ; a non-empty answer stops the
    history (state is tainted).  Returns (case, first_violation_or_None)."""
    init = case["init"]
    t, g = make_initial(init)
    steps = case.setdefault("steps", [])
    v = on_step(-1, t, g, None, {"cls": "init|" + init["kind"], "nontrivial": init["kind"] != "empty", "enc": None})
    if v:
        return case, v
    n = len(steps) if gen is None else gen[2]
    for i in range(n):
        enc = TL.Encoding(t)
        if gen is not None:
            rng, vals, _n, warm_p = gen
            warm = gen_warm(rng, g) if rng.random() < warm_p else []
            op = TL.gen_op(rng, vals, g, enc, allow=case.get("allow"))
            steps.append({"warm": warm, "op": op})
        st = steps[i]
        op, warm = st["op"], st.get("warm", [])
        key, nontrivial = TL.classify(op, g, enc)
        if warm:
            key += "|warm=" + "+".join(sorted({w["w"] for w in warm}))
        info = {"cls": key, "nontrivial": nontrivial, "enc": enc, "warm": warm, "pre": {"W": g.W, "H": g.H, "rows": enc.row_runs, "cols": enc.cols, "cells": enc.cell_runs}}
        try:
            do_warm(t, warm)
        except Exception as e:
            return case, [("warm-read-raised:" + type(e).__name__, {"exc": repr(e), "warm": warm, "step": i})]
        observed = {}
        exc = None
        try:
            TL.apply_real(t, op, observed)
        except Exception as e:
            import traceback

            exc = e
            info["tb"] = traceback.format_exc()[-1500:]
        expected = None
        try:
            if exc is None or True:
                TL.apply_model(g, op, observed)
        except TL.ModelError as me:
            expected = me.exc_type
        except TL.ModelLaw as ml:
            if exc is None:
                return case, [(f"law:{op['op']}", {"law": ml.args[0], "before": ml.args[1], "after": ml.args[2], "step": i, "op": op, "pre": info["pre"]})]
        except KeyError:
            # the model could not be advanced because the real call failed before the
            # observation was taken (rowroute / live_repeated)
            if exc is None:
                raise
        if exc is not None and not (expected and isinstance(exc, expected)):
            return case, [(f"exception:{op['op']}:{type(exc).__name__}", {"exc": repr(exc), "tb": info.get("tb"), "step": i, "op": op, "pre": info["pre"]})]
        if exc is None and expected is not None:
            return case, [(f"missing-exception:{op['op']}", {"expected": expected.__name__, "step": i, "op": op})]
        info["raised"] = exc is not None
        v = on_step(i, t, g, op, info)
        if v:
            for m, d in v:
                if isinstance(d, dict):
                    d.setdefault("step", i)
                    d.setdefault("op", op)
                    d.setdefault("pre", info["pre"])
            return case, v
    return case, None


# --------------------------------------------------------------------------- C02: live vs fresh vs XML


def _expected_map(repeats):
    out, pos = [], -1
    for r in repeats:
        pos += r
        out.append(pos)
    return out


def _node(el):
    return el._Element__element


STATE_INVARIANTS = {"checked": 0, "unavailable": 0}


def check_coherence(t, rng, doc=None):
    """L (live answers) vs F (fresh parse of the serialisation) vs X (independent expansion),
    plus the cache-map / cached-wrapper invariants.  -> [(mechanism, detail)]"""
    out = []
    try:
        xml = t.serialize(with_ns=True)
        xel = tabxml.parse(xml)
        exp = tabxml.expand(xel)
        if exp is None:
            return out
        XW, Xrows = exp
        X = {"size": (XW, len(Xrows)), "values": tabxml.padded(XW, Xrows)}
        L = TL.observe_basic(t)
        f = TL.fresh(t)
        F = TL.observe_basic(f)
        # rows wider than the declared columns make "padded" ill-defined: C07 judges those
        for name, A, B in (("L!=F", L, F), ("F!=X", F, X), ("L!=X", L, X)):
            if tuple(A["size"]) != tuple(B["size"]):
                out.append((f"coherence:size:{name}", {"a": A["size"], "b": B["size"]}))
                break
            if not TL.matrix_equal(A["values"], B["values"]):
                # X pads to W; odfdo answers rows wider than W unpadded - compare modulo that
                out.append((f"coherence:values:{name}", {"a": A["values"], "b": B["values"]}))
                break
        if out:
            return out
        W, H = X["size"]
        # point reads through the (possibly warm) caches
        coords = [(rng.randint(0, W), rng.randint(0, H)) for _ in range(5)]
        for x, y in coords:
            lv, fv = t.get_value((x, y)), f.get_value((x, y))
            xv = Xrows[y][x] if y < H and x < len(Xrows[y]) else None
            if not (TL.values_equal(lv, fv) and TL.values_equal(fv, xv)):
                out.append(("coherence:get_value", {"coord": [x, y], "live": lv, "fresh": fv, "xml": xv}))
            lc = t.get_cell((x, y)).value
            if not TL.values_equal(lc, xv):
                out.append(("coherence:get_cell", {"coord": [x, y], "live": lc, "xml": xv}))
        for y in ([rng.randrange(H) for _ in range(3)] if H else []):
            lr = TL.strip_none(t.get_row(y).get_values())
            if not TL.list_equal(lr, TL.strip_none(Xrows[y])):
                out.append(("coherence:get_row", {"y": y, "live": lr, "xml": Xrows[y]}))
            lw, fw = t.get_row(y).width, f.get_row(y).width
            if lw != fw or lw != len(Xrows[y]):
                out.append(("coherence:row-width", {"y": y, "live": lw, "fresh": fw, "xml": len(Xrows[y])}))
        for x in ([rng.randrange(W) for _ in range(2)] if W else []):
            lc = t.get_column_values(x)
            xc = [r[x] if x < len(r) else None for r in Xrows]
            if not TL.list_equal(lc, xc):
                out.append(("coherence:get_column_values", {"x": x, "live": lc, "xml": xc}))
            try:
                col = t.get_column(x)
                if col.x != x:
                    out.append(("coherence:get_column.x", {"x": x, "got": col.x}))
            except Exception as e:
                out.append(("coherence:get_column-raised", {"x": x, "exc": repr(e)}))
        # state invariants: maps == maps recomputed from the XML, cached wrappers not orphaned
        live_el = _node(t)
        rows_el = tabxml.row_elements(live_el)
        cols_el = tabxml.column_elements(live_el)
        exp_t = _expected_map([tabxml._rep(r, tabxml.REP_ROWS) for r in rows_el])
        exp_c = _expected_map([tabxml._rep(c, tabxml.REP_COLS) for c in cols_el])
        # (the anchored private state: judged when the implementation has it, the behavioural comparisons
        # above do not depend on it)
        indexes = getattr(t, "_indexes", None)
        if not (hasattr(t, "_tmap") and hasattr(t, "_cmap") and isinstance(indexes, dict)):
            STATE_INVARIANTS["unavailable"] += 1
            indexes = {}
        else:
            STATE_INVARIANTS["checked"] += 1
            if list(t._tmap) != exp_t:
                out.append(("map:_tmap-stale", {"map": list(t._tmap), "xml": exp_t}))
            if list(t._cmap) != exp_c:
                out.append(("map:_cmap-stale", {"map": list(t._cmap), "xml": exp_c}))
        for idx, w in list(indexes.get("_tmap", {}).items()):
            if w is None:
                continue
            if idx >= len(rows_el) or _node(w) is not rows_el[idx]:
                out.append(("cache:row-wrapper-orphan", {"idx": idx, "nrows": len(rows_el)}))
                continue
            exp_r = _expected_map([tabxml._rep(c, tabxml.REP_COLS) for c in tabxml.cell_elements(rows_el[idx])])
            if hasattr(w, "_rmap") and list(w._rmap) != exp_r:
                out.append(("cache:row-wrapper-rmap-stale", {"idx": idx, "map": list(w._rmap), "xml": exp_r}))
            cells_el = tabxml.cell_elements(rows_el[idx])
            for cidx, cw in list((getattr(w, "_indexes", None) or {}).get("_rmap", {}).items()):
                if cw is None:
                    continue
                if cidx >= len(cells_el) or _node(cw) is not cells_el[cidx]:
                    out.append(("cache:cell-wrapper-orphan", {"row": idx, "idx": cidx}))
        for idx, w in list(indexes.get("_cmap", {}).items()):
            if w is None:
                continue
            if idx >= len(cols_el) or _node(w) is not cols_el[idx]:
                out.append(("cache:column-wrapper-orphan", {"idx": idx}))
        # a document saved right now reloads to the table the caller is looking at
        if doc is not None:
            import io

            from odfdo import Document

            buf = io.BytesIO()
            doc.save(buf)
            buf.seek(0)
            t2 = Document(buf).body.get_table(0)
            R = TL.observe_basic(t2)
            if tuple(R["size"]) != tuple(L["size"]) or not TL.matrix_equal(R["values"], L["values"]):
                out.append(("coherence:saved-document-differs", {"live": L, "reloaded": R}))
    except Exception as e:
        import traceback

        out.append((f"coherence-raised:{type(e).__name__}", {"exc": repr(e), "tb": traceback.format_exc()[-1500:]}))
    return out


# --------------------------------------------------------------------------- C07: structure


def check_structure(t):
    out = []
    try:
        xel = tabxml.parse(t.serialize(with_ns=True))
        facts, (W, H) = tabxml.structure_facts(xel)
        for rule, ok, detail in facts:
            if not ok:
                out.append((f"structure:{rule}", {"detail": detail}))
        if t.height != H:
            out.append(("structure:height!=sum-of-row-repeats", {"height": t.height, "xml": H}))
        if t.width != W:
            out.append(("structure:width!=sum-of-column-repeats", {"width": t.width, "xml": W}))
    except Exception as e:
        import traceback

        out.append((f"structure-raised:{type(e).__name__}", {"exc": repr(e), "tb": traceback.format_exc()[-1200:]}))
    return out
