import sys
from .core import shard_main
sys.exit(shard_main(sys.argv[1:]))
