"""O-LEX: lexical spaces of the ODF/XSD datatypes and independent value computation.
No odfdo import; dates are built with datetime *constructors*, never fromisoformat."""

from __future__ import annotations

import datetime as dt
import re

RE_BOOLEAN = re.compile(r"^(true|false)\Z")
RE_DATE = re.compile(r"^(\d{4})-(\d{2})-(\d{2})\Z")
RE_DATETIME = re.compile(
    r"^(\d{4})-(\d{2})-(\d{2})T(\d{2}):(\d{2}):(\d{2})(?:\.(\d+))?(Z|[+-]\d{2}:\d{2})?\Z"
)
RE_DURATION = re.compile(
    r"^(-)?P(?:(\d+)Y)?(?:(\d+)M)?(?:(\d+)D)?(?:T(?:(\d+)H)?(?:(\d+)M)?(?:(\d+)(?:\.(\d+))?S)?)?\Z"
)
RE_COLOR = re.compile(r"^#[0-9A-Fa-f]{6}\Z")
RE_DOUBLE = re.compile(r"^[+-]?(\d+(\.\d*)?|\.\d+)([eE][+-]?\d+)?$|^(INF|-INF|NaN)\Z")
RE_LENGTH = re.compile(r"^-?(\d+(\.\d*)?|\.\d+)(cm|mm|in|pt|pc|px|em)\Z")


def in_duration_space(s):
    m = RE_DURATION.match(s)
    if not m:
        return False
    if s.endswith("P") or s.endswith("T"):
        return False
    return any(m.group(i) is not None for i in (2, 3, 4, 5, 6, 7))


def date_value(s):
    """-> datetime at midnight, or None when s is not in the xsd:date space (no zone)."""
    m = RE_DATE.match(s)
    if not m:
        return None
    try:
        return dt.datetime(int(m.group(1)), int(m.group(2)), int(m.group(3)))
    except ValueError:
        return None


def datetime_value(s):
    m = RE_DATETIME.match(s)
    if not m:
        return None
    y, mo, d, h, mi, sec, frac, zone = m.groups()
    tz = None
    if zone == "Z":
        tz = dt.timezone.utc
    elif zone:
        sign = -1 if zone[0] == "-" else 1
        tz = dt.timezone(sign * dt.timedelta(hours=int(zone[1:3]), minutes=int(zone[4:6])))
    us = 0
    if frac:
        us = int((frac + "000000")[:6])
    try:
        return dt.datetime(int(y), int(mo), int(d), int(h), int(mi), int(sec), us, tzinfo=tz)
    except ValueError:
        return None


def duration_value(s):
    """-> timedelta, or None when not in the space, or "no-timedelta" when the duration has
    year/month components (no fixed length)."""
    if not in_duration_space(s):
        return None
    m = RE_DURATION.match(s)
    neg, Y, Mo, D, H, Mi, S, frac = m.groups()
    if Y is not None or Mo is not None:
        return "no-timedelta"
    total = int(D or 0) * 86400 + int(H or 0) * 3600 + int(Mi or 0) * 60 + int(S or 0)
    us = int((frac + "000000")[:6]) if frac else 0
    td = dt.timedelta(seconds=total, microseconds=us)
    return -td if neg else td


def same_datetime(a, b):
    """Equal instants AND equal utc offsets (naive only equals naive)."""
    if not isinstance(a, dt.datetime) or not isinstance(b, dt.datetime):
        return False
    if (a.tzinfo is None) != (b.tzinfo is None):
        return False
    if a.tzinfo is None:
        return a == b
    return a == b and a.utcoffset() == b.utcoffset()


def digits_reading_date(s):
    """Lenient 'digit reading' of a date-like string outside the lexical space: the eight
    digits of the date part read as YYYYMMDD.  None when no such reading exists."""
    date_part = re.split(r"[T ]", s, maxsplit=1)[0]
    if re.search(r"[^0-9-]", date_part):
        return None
    digits = re.sub(r"\D", "", date_part)
    if len(digits) != 8:
        return None
    try:
        return dt.date(int(digits[:4]), int(digits[4:6]), int(digits[6:8]))
    except ValueError:
        return None
