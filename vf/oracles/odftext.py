"""O-TEXT: ODF 1.2 (part 1, 6.1.2) white-space interpreter and plain-text projection over an
lxml tree.  No odfdo import.

Reading implemented (the one LibreOffice implements, see DESIGN section 3):
  * character data: HT/CR/LF become SPACE; a SPACE is dropped when the previous *character
    data* character of the paragraph was a (kept or dropped) SPACE, or when nothing precedes
    it in the paragraph; one trailing character-data SPACE at the paragraph end is dropped;
  * text:s (with text:c), text:tab, text:line-break contribute non-collapsible characters
    and reset the "previous was space" state;
  * inline *containers* (text:note, office:annotation(-end), draw:* shapes/frames, text:ruby
    annotation text) are opaque: their content is not paragraph text; their tail is.
"""

from __future__ import annotations

from lxml import etree

TEXT = "urn:oasis:names:tc:opendocument:xmlns:text:1.0"
OFFICE = "urn:oasis:names:tc:opendocument:xmlns:office:1.0"
DRAW = "urn:oasis:names:tc:opendocument:xmlns:drawing:1.0"
TX = "{%s}" % TEXT
S, TAB, LB = TX + "s", TX + "tab", TX + "line-break"
P, H = TX + "p", TX + "h"

OPAQUE_TAGS = {
    TX + "note",
    "{%s}annotation" % OFFICE,
    "{%s}annotation-end" % OFFICE,
    TX + "ruby-text",
    TX + "tracked-changes",
}


def is_opaque(el):
    if not isinstance(el.tag, str):
        return True  # comments, PIs
    if el.tag in OPAQUE_TAGS:
        return True
    return el.tag.startswith("{%s}" % DRAW)


class Projection:
    def __init__(self):
        self.out: list[str] = []
        self.kinds: list[str] = []  # per emitted char: "c" char data, "e" element
        self.ignore = True  # a char-data SPACE would be dropped
        self.spans: list[tuple] = []  # (element, start, end)
        self.marks: list[tuple] = []  # (empty element, offset)
        self.raw_ws_in_text = False  # a text node contains TAB/CR/LF (not normal form)

    def chars(self, s):
        if not s:
            return
        for ch in s:
            if ch in "\t\r\n":
                self.raw_ws_in_text = True
                ch = " "
            if ch == " ":
                if self.ignore:
                    continue
                self.out.append(" ")
                self.kinds.append("c")
                self.ignore = True
            else:
                self.out.append(ch)
                self.kinds.append("c")
                self.ignore = False

    def hard(self, s):
        for ch in s:
            self.out.append(ch)
            self.kinds.append("e")
        self.ignore = False

    def walk(self, el):
        self.chars(el.text)
        for ch in el:
            start = len(self.out)
            if not isinstance(ch.tag, str):
                pass
            elif ch.tag == S:
                try:
                    n = int(ch.get(TX + "c") or 1)
                except ValueError:
                    n = 1
                self.hard(" " * n)
            elif ch.tag == TAB:
                self.hard("\t")
            elif ch.tag == LB:
                self.hard("\n")
            elif is_opaque(ch):
                self.marks.append((ch, start))
                self.ignore = False
            else:
                self.walk(ch)
                if len(ch) == 0 and not ch.text:
                    self.marks.append((ch, start))
                else:
                    self.spans.append((ch, start, len(self.out)))
            self.chars(ch.tail)

    def finish(self):
        if self.out and self.out[-1] == " " and self.kinds[-1] == "c":
            self.out.pop()
            self.kinds.pop()
            n = len(self.out)
            self.spans = [(e, min(a, n), min(b, n)) for e, a, b in self.spans]
            self.marks = [(e, min(a, n)) for e, a in self.marks]
        return "".join(self.out)


def project(el):
    """Readable text of one paragraph-like element (text:p, text:h, or an inline element taken
    as a root)."""
    p = Projection()
    p.walk(el)
    return p.finish()


def project_full(el):
    p = Projection()
    p.walk(el)
    text = p.finish()
    return text, p


def parse(xml):
    if isinstance(xml, str):
        xml = xml.encode("utf-8")
    return etree.fromstring(xml)


def paragraphs(root):
    """All text:p / text:h of a tree in document order (nested ones included, each one
    projected on its own)."""
    return [e for e in root.iter(P, H)]


def normal_form_issues(el):
    """White-space normal form facts about a serialised paragraph: -> list of strings."""
    issues = []
    for node in el.iter():
        if not isinstance(node.tag, str):
            continue
        if is_opaque(node) and node is not el:
            continue
        for t in (node.text, node.tail if node is not el else None):
            if t and any(c in t for c in "\t\r\n"):
                issues.append("raw TAB/CR/LF in a text node")
        if node.tag == S:
            c = node.get(TX + "c")
            if c is not None and (not c.isdigit() or int(c) < 1):
                issues.append(f"text:c={c!r}")
    return issues
