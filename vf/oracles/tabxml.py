"""O-TABXML: independent reader of a serialised table:table (lxml only, no odfdo import).

Works on run-length lists; expands only on request and within a size bound."""

from __future__ import annotations

import datetime as _dt
import re
from decimal import Decimal

from lxml import etree

NS = {
    "table": "urn:oasis:names:tc:opendocument:xmlns:table:1.0",
    "office": "urn:oasis:names:tc:opendocument:xmlns:office:1.0",
    "text": "urn:oasis:names:tc:opendocument:xmlns:text:1.0",
    "calcext": "urn:org:documentfoundation:names:experimental:calc:xmlns:calcext:1.0",
}
T = "{%s}" % NS["table"]
O = "{%s}" % NS["office"]
TX = "{%s}" % NS["text"]

ROW = T + "table-row"
CELL = T + "table-cell"
COVERED = T + "covered-table-cell"
COLUMN = T + "table-column"
ROW_WRAPPERS = (T + "table-rows", T + "table-header-rows")
COL_WRAPPERS = (T + "table-columns", T + "table-header-columns")
REP_ROWS = T + "number-rows-repeated"
REP_COLS = T + "number-columns-repeated"

RE_REPEAT = re.compile(r"^[1-9][0-9]*$")


def parse(xml):
    if isinstance(xml, str):
        xml = xml.encode("utf-8")
    return etree.fromstring(xml)


def _rep(el, attr):
    v = el.get(attr)
    if v is None:
        return 1
    try:
        return max(int(v), 1)
    except ValueError:
        return 1


def row_elements(table):
    out = []
    for ch in table:
        if ch.tag == ROW:
            out.append(ch)
        elif ch.tag in ROW_WRAPPERS:
            out.extend(c for c in ch if c.tag == ROW)
    return out


def column_elements(table):
    out = []
    for ch in table:
        if ch.tag == COLUMN:
            out.append(ch)
        elif ch.tag in COL_WRAPPERS:
            out.extend(c for c in ch if c.tag == COLUMN)
    return out


def cell_elements(row):
    return [c for c in row if c.tag in (CELL, COVERED)]


def para_text(p):
    """Minimal plain projection of a text:p for cell values (text:s, tab, line-break)."""
    out = []

    def walk(el):
        if el.text:
            out.append(el.text)
        for ch in el:
            if ch.tag == TX + "s":
                try:
                    n = int(ch.get(TX + "c") or 1)
                except ValueError:
                    n = 1
                out.append(" " * n)
            elif ch.tag == TX + "tab":
                out.append("\t")
            elif ch.tag == TX + "line-break":
                out.append("\n")
            elif ch.tag in (TX + "note", O + "annotation"):
                pass
            else:
                walk(ch)
            if ch.tail:
                out.append(ch.tail)

    walk(p)
    return "".join(out)


def decode_duration(s):
    m = re.match(r"^(-)?P(?:(\d+)D)?(?:T(?:(\d+)H)?(?:(\d+)M)?(?:(\d+(?:\.\d+)?)S)?)?$", s)
    if not m:
        return ("?duration", s)
    sign = -1 if m.group(1) else 1
    d, h, mi, sec = (m.group(i) for i in range(2, 6))
    total = int(d or 0) * 86400 + int(h or 0) * 3600 + int(mi or 0) * 60
    td = _dt.timedelta(seconds=total) + _dt.timedelta(seconds=float(sec or 0))
    return sign * td


def decode_cell(cell):
    """Python value of a cell, decoded independently of odfdo (same conventions for the
    result type: numbers -> int when integral else Decimal; date -> datetime)."""
    vt = cell.get(O + "value-type")
    if vt is None:
        return None
    if vt in ("float", "percentage", "currency"):
        v = cell.get(O + "value")
        if v is None:
            return None
        d = Decimal(v)
        if d == d.to_integral_value() and "." not in v and "e" not in v.lower():
            return int(d)
        return d
    if vt == "boolean":
        v = cell.get(O + "boolean-value")
        return {"true": True, "false": False}.get(v, ("?bool", v))
    if vt == "date":
        v = cell.get(O + "date-value")
        if v is None:
            return None
        try:
            if "T" in v:
                return _dt.datetime.fromisoformat(v.replace("Z", "+00:00"))
            y, m, d = v.split("-")
            return _dt.datetime(int(y), int(m), int(d))
        except Exception:
            return ("?date", v)
    if vt == "time":
        v = cell.get(O + "time-value")
        if v is None:
            return None
        return decode_duration(v)
    if vt == "string":
        v = cell.get(O + "string-value")
        if v is not None:
            return v
        ps = [c for c in cell if c.tag == TX + "p"]
        return "\n".join(para_text(p) for p in ps)
    return ("?type", vt)


def rle(table):
    """-> (cols [(repeat)], rows [(repeat, [(repeat, value, is_covered)])])"""
    cols = [_rep(c, REP_COLS) for c in column_elements(table)]
    rows = []
    for r in row_elements(table):
        cells = [(_rep(c, REP_COLS), decode_cell(c), c.tag == COVERED) for c in cell_elements(r)]
        rows.append((_rep(r, REP_ROWS), cells))
    return cols, rows


def logical_size(table):
    cols, rows = rle(table)
    return sum(cols), sum(r for r, _ in rows)


def expand(table, limit=40000):
    """Full expansion: (W, [explicit row value lists]). None when too big."""
    cols, rows = rle(table)
    W = sum(cols)
    H = sum(r for r, _ in rows)
    maxw = max([sum(c[0] for c in cells) for _, cells in rows] or [0])
    if max(W, maxw, 1) * max(H, 1) > limit:
        return None
    out = []
    for rep, cells in rows:
        vals = []
        for crep, v, _cov in cells:
            vals.extend([v] * crep)
        for _ in range(rep):
            out.append(list(vals))
    return W, out


def padded(W, rows):
    return [r + [None] * (W - len(r)) for r in rows]


def structure_facts(table):
    """Facts for C07, each a (rule, ok, detail)."""
    facts = []
    bad_rep = []
    for el in table.iter():
        # do not descend into nested tables' internals for attribution, but judge them too
        for attr in (REP_ROWS, REP_COLS):
            v = el.get(attr)
            if v is not None and (not RE_REPEAT.match(v) or int(v) < 2):
                bad_rep.append((etree.QName(el).localname, etree.QName(attr).localname, v))
    facts.append(("repeat-attr-absent-or-int>=2", not bad_rep, bad_rep[:5]))
    bad_child = []
    for r in row_elements(table):
        for ch in r:
            if ch.tag not in (CELL, COVERED):
                bad_child.append(etree.QName(ch).localname if isinstance(ch.tag, str) else str(ch.tag))
        if r.text and r.text.strip():
            bad_child.append("#text")
    facts.append(("rows-contain-only-cells", not bad_child, bad_child[:5]))
    seen_row = False
    order_bad = False
    for ch in table:
        if ch.tag == ROW or ch.tag in ROW_WRAPPERS:
            seen_row = True
        elif (ch.tag == COLUMN or ch.tag in COL_WRAPPERS) and seen_row:
            order_bad = True
    facts.append(("columns-precede-rows", not order_bad, None))
    cols, rows = rle(table)
    W = sum(cols)
    H = sum(r for r, _ in rows)
    widths = [sum(c[0] for c in cells) for _, cells in rows]
    too_wide = [(i, w) for i, w in enumerate(widths) if w > W]
    facts.append(("no-row-wider-than-declared-columns", not too_wide, {"W": W, "rows": too_wide[:5]}))
    facts.append(("table-with-row-has-column", not (H >= 1 and W < 1), {"W": W, "H": H}))
    return facts, (W, H)


def expand_full(table, limit=40000):
    """Per logical cell facts: (W, rows) where each cell is a dict
    {v, style, covered, cspan, rspan}. None when too big."""
    cols = [_rep(c, REP_COLS) for c in column_elements(table)]
    W = sum(cols)
    out = []
    total = 0
    for r in row_elements(table):
        cells = []
        for c in cell_elements(r):
            info = {
                "v": decode_cell(c),
                "style": c.get(T + "style-name"),
                "covered": c.tag == COVERED,
                "cspan": c.get(T + "number-columns-spanned"),
                "rspan": c.get(T + "number-rows-spanned"),
            }
            cells.extend([info] * _rep(c, REP_COLS))
        rep = _rep(r, REP_ROWS)
        total += max(len(cells), 1) * rep
        if total > limit:
            return None
        for _ in range(rep):
            out.append(list(cells))
    return W, out
