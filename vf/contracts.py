"""icontract post-conditions installed on odfdo's real codec functions (leaf, pure).

Named condition functions + explicit error=; every evaluation is counted (zero evaluations
=> the check is inconclusive, never "held")."""

from __future__ import annotations

import datetime as dt

import icontract

from .oracles import lex

COUNT: dict[str, int] = {}
UNJUDGED: dict[str, int] = {}
LAST: dict = {}


class ContractBroken(Exception):
    def __init__(self, *a):
        super().__init__(*a)
        self.witness = dict(LAST)


def _seen(name, **kw):
    COUNT[name] = COUNT.get(name, 0) + 1
    LAST.clear()
    LAST.update(kw, contract=name)


# ---- Boolean
def boolean_decode_post(data, result):
    _seen("Boolean.decode", data=data, result=result)
    return (data == "true" and result is True) or (data == "false" and result is False)


def boolean_encode_post(value, result):
    _seen("Boolean.encode", value=value, result=result)
    if isinstance(value, bool):
        return result == ("true" if value else "false")
    return result in ("true", "false")


# ---- Date
def date_encode_post(value, result):
    _seen("Date.encode", value=value, result=result)
    exp = lex.date_value(result)
    return exp is not None and (exp.year, exp.month, exp.day) == (value.year, value.month, value.day)


def date_decode_post(data, result):
    _seen("Date.decode", data=data, result=result)
    if not isinstance(result, dt.datetime):
        return False
    v = lex.date_value(data)
    if v is not None:
        return result == v and result.tzinfo is None
    v = lex.datetime_value(data)
    if v is not None:  # office:date-value is dateOrDateTime
        return lex.same_datetime(result, v)
    d = lex.digits_reading_date(data)
    if d is None:
        UNJUDGED["Date.decode"] = UNJUDGED.get("Date.decode", 0) + 1
        return True  # an ISO-8601 form outside the ODF space with no simple reading: not judged
    return result.date() == d


# ---- DateTime
def datetime_encode_post(value, result):
    _seen("DateTime.encode", value=value, result=result)
    off = value.utcoffset()
    if off is not None and (off.seconds % 60 or off.microseconds):
        return True  # offsets with seconds have no ODF form: outside the stated domain
    exp = lex.datetime_value(result)
    return exp is not None and lex.same_datetime(exp, value)


def datetime_decode_post(data, result):
    _seen("DateTime.decode", data=data, result=result)
    if not isinstance(result, dt.datetime):
        return False
    v = lex.datetime_value(data)
    if v is not None:
        return lex.same_datetime(result, v)
    v = lex.date_value(data)
    if v is not None:
        return result == v
    d = lex.digits_reading_date(data)
    if d is None:
        UNJUDGED["DateTime.decode"] = UNJUDGED.get("DateTime.decode", 0) + 1
        return True
    return result.date() == d


# ---- Duration
def duration_encode_post(value, result):
    _seen("Duration.encode", value=value, result=result)
    if value.microseconds:
        return lex.in_duration_space(result)  # sub-second durations: lexical form only
    exp = lex.duration_value(result)
    return isinstance(exp, dt.timedelta) and exp == value


def duration_decode_post(data, result):
    _seen("Duration.decode", data=data, result=result)
    exp = lex.duration_value(data)
    if exp is None or exp == "no-timedelta":
        return False  # outside the lexical space (or no fixed length): must have been rejected
    return result == exp


# ---- colours
def rgb2hex_post(color, result):
    _seen("rgb2hex", color=color, result=result)
    if not lex.RE_COLOR.match(result):
        return False
    if isinstance(color, tuple):
        return (int(result[1:3], 16), int(result[3:5], 16), int(result[5:7], 16)) == tuple(color)
    from .oracles.css3 import CSS3

    exp = CSS3.get(color.lower())
    return exp is not None and (int(result[1:3], 16), int(result[3:5], 16), int(result[5:7], 16)) == exp


def hex2rgb_post(color, result):
    _seen("hex2rgb", color=color, result=result)
    if not lex.RE_COLOR.match(color):
        return False  # outside #rrggbb: must have been rejected
    return tuple(result) == (int(color[1:3], 16), int(color[3:5], 16), int(color[5:7], 16))


_installed = False


def install():
    """Decorate the real functions in place (class attributes / module globals of every
    importer)."""
    global _installed
    if _installed:
        return
    import sys

    from odfdo import datatype as D
    from odfdo.utils import color as C

    def wrap_static(cls, name, cond):
        fn = getattr(cls, name)
        setattr(cls, name, staticmethod(icontract.ensure(cond, error=ContractBroken)(fn)))

    wrap_static(D.Boolean, "decode", boolean_decode_post)
    wrap_static(D.Boolean, "encode", boolean_encode_post)
    wrap_static(D.Date, "decode", date_decode_post)
    wrap_static(D.Date, "encode", date_encode_post)
    wrap_static(D.DateTime, "decode", datetime_decode_post)
    wrap_static(D.DateTime, "encode", datetime_encode_post)
    wrap_static(D.Duration, "decode", duration_decode_post)
    wrap_static(D.Duration, "encode", duration_encode_post)
    new_rgb2hex = icontract.ensure(rgb2hex_post, error=ContractBroken)(C.rgb2hex)
    new_hex2rgb = icontract.ensure(hex2rgb_post, error=ContractBroken)(C.hex2rgb)
    old = {"rgb2hex": C.rgb2hex, "hex2rgb": C.hex2rgb}
    # references bound with `from m import f` bypass a contract: patch every importer
    for mod in list(sys.modules.values()):
        if mod is None or not getattr(mod, "__name__", "").startswith("odfdo"):
            continue
        for name, new in (("rgb2hex", new_rgb2hex), ("hex2rgb", new_hex2rgb)):
            if getattr(mod, name, None) is old[name]:
                setattr(mod, name, new)
    _installed = True
