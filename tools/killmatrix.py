#!/venv/bin/python
"""Confirm every seeded change and record which checks catch it.

For each /verif/seeded/<id>/: scratch worktree of /repo HEAD -> demo on the clean tree (must
exit 0) -> apply patch.diff -> demo (must exit 1) -> repository suite (must pass) -> run the
quick tier of the property's own check (and of related checks) against the patched scratch tree
through VF_REPO -> remove the worktree.  Results go to /verif/validation/kill_matrix.json and
into each meta.json ("confirmed").

usage: tools/killmatrix.py [--jobs N] [--no-suite] [seed ids...]"""
import concurrent.futures as cf
import json
import os
import subprocess
import sys
import tempfile

HERE = os.path.dirname(os.path.dirname(os.path.abspath(__file__)))
SEEDED = os.path.join(HERE, "seeded")
RELATED = {
    "C01": ["C01", "C02"], "C02": ["C02", "C01"], "C03": ["C03"], "C04": ["C04"], "C05": ["C05"], "C06": ["C06", "C18"],
    "C07": ["C07"], "C08": ["C08"], "C09": ["C09"], "C10": ["C10"], "C11": ["C11", "C03"], "C12": ["C12", "C19"],
    "C13": ["C13"], "C14": ["C14"], "C15": ["C15"], "C16": ["C16"], "C17": ["C17"], "C18": ["C18", "C06"],
    "C19": ["C19"], "C20": ["C20"],
}


# changes whose effect belongs to another property's check (a shallow container clone is C10's / C04's business)
EXTRA = {"C03-I": ["C03", "C10", "C04"], "C10-J": ["C10", "C13"], "C03-J": ["C03", "C11"]}


def sh(cmd, cwd=None, env=None, timeout=3600):
    p = subprocess.run(cmd, cwd=cwd, env=env, capture_output=True, text=True, timeout=timeout)
    return p.returncode, (p.stdout + p.stderr)


def one(seed, suite=True, njobs=4):
    d = os.path.join(SEEDED, seed)
    prop = seed.split("-")[0]
    wt = tempfile.mkdtemp(prefix=f"km-{seed}-")
    os.rmdir(wt)
    out = {"seed": seed, "property": prop}
    rc, o = sh(["git", "-C", "/repo", "worktree", "add", "-q", "--detach", wt, "HEAD"])
    if rc:
        out["error"] = "worktree: " + o[-300:]
        return out
    try:
        env = dict(os.environ, PYTHONPATH=os.path.join(wt, "src"), PYTHONDONTWRITEBYTECODE="1")
        out["head"] = sh(["git", "-C", "/repo", "rev-parse", "--short", "HEAD"])[1].strip()
        out["demo_clean"] = sh(["/venv/bin/python", "-B", os.path.join(d, "demo.py")], cwd=wt, env=env, timeout=900)[0]
        rc, o = sh(["git", "-C", wt, "apply", os.path.join(d, "patch.diff")])
        out["applies"] = rc == 0
        if rc:
            out["error"] = "apply: " + o[-300:]
            return out
        out["demo_patched"] = sh(["/venv/bin/python", "-B", os.path.join(d, "demo.py")], cwd=wt, env=env, timeout=900)[0]
        if suite:
            rc, o = sh(["/venv/bin/python", "-B", "-m", "pytest", "-q", "-p", "no:cacheprovider", "-n", str(njobs)], cwd=wt, env=env, timeout=3600)
            out["suite"] = o.strip().splitlines()[-1] if o.strip() else "?"
            out["suite_ok"] = rc == 0
        checks = {}
        for c in EXTRA.get(seed, RELATED.get(prop, [prop])):
            env2 = dict(os.environ, VF_REPO=wt, VF_PAR="8")
            rc, o = sh([os.path.join(HERE, "check"), c, "--tier", "quick"], env=env2, timeout=3600)
            mech = [l.strip() for l in o.splitlines() if l.strip().startswith("mechanism:")]
            checks[c] = {"exit": rc, "mechanism": mech[0][len("mechanism:") :].strip() if mech else None}
        out["checks"] = checks
        out["caught_by"] = [c for c, r in checks.items() if r["exit"] == 1]
    finally:
        sh(["git", "-C", "/repo", "worktree", "remove", "--force", wt])
        subprocess.run(["rm", "-rf", wt])
    return out


def main():
    args = sys.argv[1:]
    jobs = 3
    suite = True
    if "--jobs" in args:
        i = args.index("--jobs")
        jobs = int(args[i + 1])
        del args[i : i + 2]
    if "--no-suite" in args:
        suite = False
        args.remove("--no-suite")
    seeds = args or sorted(s for s in os.listdir(SEEDED) if os.path.isdir(os.path.join(SEEDED, s)))
    results = {}
    path = os.path.join(HERE, "validation", "kill_matrix.json")
    os.makedirs(os.path.dirname(path), exist_ok=True)
    if os.path.exists(path):
        results = json.load(open(path))
    with cf.ThreadPoolExecutor(jobs) as ex:
        for r in ex.map(lambda s: one(s, suite), seeds):
            if not suite and results.get(r["seed"], {}).get("suite_ok") is not None:
                # suite result of the earlier confirmation of the same patch is kept
                r["suite"], r["suite_ok"] = results[r["seed"]].get("suite"), results[r["seed"]].get("suite_ok")
            results[r["seed"]] = r
            ok = r.get("demo_clean") == 0 and r.get("demo_patched") == 1 and (r.get("suite_ok", True))
            print(r["seed"], "confirmed" if ok else "NOT-CONFIRMED", "caught_by=" + ",".join(r.get("caught_by", [])), r.get("error", ""), flush=True)
            mp = os.path.join(SEEDED, r["seed"], "meta.json")
            try:
                m = json.load(open(mp))
            except Exception:
                m = {}
            m["confirmed"] = {k: r.get(k) for k in ("head", "demo_clean", "demo_patched", "suite", "suite_ok", "caught_by")}
            m["confirmed"]["how"] = "tools/killmatrix.py: scratch worktree of /repo HEAD; demo.py clean exit 0 / patched exit 1; repository suite on the patched tree; quick checks against the patched tree via VF_REPO"
            json.dump(m, open(mp, "w"), indent=1)
            json.dump(results, open(path, "w"), indent=1, sort_keys=True)


main()
