#!/bin/bash
# tools/at_commit.sh <commit> <check ids...> : run checks against a scratch worktree of /repo at <commit>
WT=/tmp/atwt.$$; C="$1"; shift
git -C /repo worktree add -q --detach "$WT" "$C" || exit 2
trap 'git -C /repo worktree remove --force "$WT" >/dev/null 2>&1; rm -rf "$WT"' EXIT
for c in "$@"; do VF_REPO="$WT" /verif/check "$c" ${TIER:+--tier $TIER} 2>&1 | grep -v "^WARNING" | grep -E "^(VIOLATION|  mechanism|C[0-9]+ |INCONCLUSIVE|KNOWN)" | head -12; done
