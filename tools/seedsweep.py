#!/venv/bin/python
"""Robustness of the kill matrix to the seed: every seeded change is applied on a scratch worktree of /repo
HEAD and the quick tier of its own property's check is run with another VERIF_SEED.
usage: tools/seedsweep.py <seed> [--jobs N] [ids...]   -> validation/seed_sweep_<seed>.json"""
import concurrent.futures as cf
import json
import os
import subprocess
import sys
import tempfile

HERE = os.path.dirname(os.path.dirname(os.path.abspath(__file__)))
SEEDED = os.path.join(HERE, "seeded")
OWN = {"C12-B": "C19", "C03-I": "C10", "C10-J": "C13"}  # caught by the check that owns the class


def one(sid, seed):
    wt = tempfile.mkdtemp(prefix=f"ss-{sid}-")
    os.rmdir(wt)
    out = {"seed_id": sid}
    if subprocess.run(["git", "-C", "/repo", "worktree", "add", "-q", "--detach", wt, "HEAD"]).returncode:
        return dict(out, error="worktree")
    try:
        if subprocess.run(["git", "-C", wt, "apply", os.path.join(SEEDED, sid, "patch.diff")]).returncode:
            return dict(out, error="apply")
        c = OWN.get(sid, sid.split("-")[0])
        p = subprocess.run([os.path.join(HERE, "check"), c, "--tier", "quick", "--seed", str(seed)], env=dict(os.environ, VF_REPO=wt, VF_PAR="6"), capture_output=True, text=True, timeout=3600)
        out.update(check=c, exit=p.returncode, last=p.stdout.strip().splitlines()[-1][:200] if p.stdout.strip() else "")
    finally:
        subprocess.run(["git", "-C", "/repo", "worktree", "remove", "--force", wt], capture_output=True)
        subprocess.run(["rm", "-rf", wt])
    return out


def main():
    args = sys.argv[1:]
    seed = int(args.pop(0))
    jobs = 2
    if "--jobs" in args:
        i = args.index("--jobs")
        jobs = int(args[i + 1])
        del args[i : i + 2]
    ids = args or sorted(s for s in os.listdir(SEEDED) if os.path.isdir(os.path.join(SEEDED, s)))
    path = os.path.join(HERE, "validation", f"seed_sweep_{seed}.json")
    res = json.load(open(path)) if os.path.exists(path) else {}
    with cf.ThreadPoolExecutor(jobs) as ex:
        for r in ex.map(lambda s: one(s, seed), ids):
            res[r["seed_id"]] = r
            print(r["seed_id"], "caught" if r.get("exit") == 1 else f"NOT-CAUGHT exit={r.get('exit')} {r.get('error', '')}", flush=True)
            json.dump(res, open(path, "w"), indent=1, sort_keys=True)


main()
