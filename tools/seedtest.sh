#!/bin/bash
# tools/seedtest.sh <seed-dir> [check ids...]
# Confirms a seeded change (patch.diff + demo.py) on a scratch worktree of /repo HEAD:
#   demo passes clean, fails patched, repository suite passes patched; then runs the given checks
#   against the patched scratch tree (VF_REPO) and reports their exit codes.
set -u
SEED="$(cd "$1" && pwd)"; shift
WT=/tmp/seedwt.$$
git -C /repo worktree add -q --detach "$WT" HEAD || exit 2
trap 'git -C /repo worktree remove --force "$WT" >/dev/null 2>&1; rm -rf "$WT"' EXIT
run_demo() { (cd "$WT" && PYTHONPATH="$WT/src" PYTHONDONTWRITEBYTECODE=1 timeout 600 /venv/bin/python -B "$SEED/demo.py" >/tmp/seedtest.$$.out 2>&1; echo $?); }
echo "demo clean: exit $(run_demo)"
if ! git -C "$WT" apply "$SEED/patch.diff"; then echo "PATCH DOES NOT APPLY"; exit 3; fi
echo "demo patched: exit $(run_demo)"; tail -3 /tmp/seedtest.$$.out; rm -f /tmp/seedtest.$$.out
if [ -z "${SKIP_TESTS:-}" ]; then
  (cd "$WT" && PYTHONPATH="$WT/src" PYTHONDONTWRITEBYTECODE=1 /venv/bin/python -B -m pytest -q -p no:cacheprovider -n 16 2>&1 | tail -1)
fi
for c in "$@"; do
  VF_REPO="$WT" /verif/check "$c" ${TIER:+--tier $TIER} > /tmp/seedtest.$$.chk 2>&1; rc=$?
  echo "check $c on patched tree: exit $rc :: $(grep -m1 -A1 '^VIOLATION' /tmp/seedtest.$$.chk | tr '\n' ' ' | cut -c1-300)"
  tail -1 /tmp/seedtest.$$.chk
done
rm -f /tmp/seedtest.$$.chk
