#!/venv/bin/python
"""Print the kill matrix (validation/kill_matrix.json) as a Markdown table."""
import json
import os

HERE = os.path.dirname(os.path.dirname(os.path.abspath(__file__)))
km = json.load(open(os.path.join(HERE, "validation", "kill_matrix.json")))
print("| seed | what it breaks (one line) | needs | confirmed (demo 0/1, suite) | caught by (quick, seed 0) | first mechanism reported |")
print("|---|---|---|---|---|---|")
for seed in sorted(km):
    r = km[seed]
    try:
        meta = json.load(open(os.path.join(HERE, "seeded", seed, "meta.json")))
    except Exception:
        meta = {}
    summ = (meta.get("summary") or "").replace("|", "/")[:150]
    needs = (meta.get("needs") or "").replace("|", "/")[:120]
    conf = f"{r.get('demo_clean')}/{r.get('demo_patched')}, {'pass' if r.get('suite_ok') else r.get('suite', '?')}"
    caught = ", ".join(r.get("caught_by", [])) or "**none**"
    mech = ""
    for c in r.get("caught_by", []):
        mech = (r["checks"][c].get("mechanism") or "")[:60]
        break
    print(f"| {seed} | {summ} | {needs} | {conf} | {caught} | {mech} |")
