#!/venv/bin/python
"""Regenerate /verif/MANIFEST.json from the property modules that exist (vf/props/cXX.py).

Each module carries MANIFEST = {"text":…, "note":…, "technique":…, "design": "§…"}.
Properties without a module are listed under not_applicable with the reason given in
PENDING below (they are not claimed)."""
import importlib
import json
import os
import sys

HERE = os.path.dirname(os.path.dirname(os.path.abspath(__file__)))
sys.path.insert(0, HERE)
sys.path.insert(0, "/repo/src")
sys.path.insert(0, os.path.join(HERE, ".deps"))

BASELINE_CMD = json.load(open("/root/.vp/BASELINE.json"))["cmd"]
props = [json.loads(l) for l in open(os.path.join(HERE, "properties.jsonl"))]
PENDING = "check not built yet in this round (planned: DESIGN.md section 4); not claimed until its monitor has been run silent on the unchanged tree"
NA = {}  # pid -> reason, for properties the technique cannot decide

checks, na = [], []
served = []
for p in props:
    pid = p["id"]
    path = os.path.join(HERE, "vf", "props", pid.lower() + ".py")
    if pid in NA:
        na.append({"property_id": pid, "reason": NA[pid]})
        continue
    if not os.path.exists(path):
        na.append({"property_id": pid, "reason": PENDING})
        continue
    mod = importlib.import_module(f"vf.props.{pid.lower()}")
    m = mod.MANIFEST
    served.append(pid)
    checks.append(
        {
            "property_id": pid,
            "quick_cmd": f"./check {pid} --tier quick",
            "thorough_cmd": f"./check {pid} --tier thorough",
            "evidence_file": f"/verif/evidence/{pid}.json",
            "replay_cmd_template": f"./check {pid} --replay {{path}}",
            "engine": "vf",
            "level_claimed": {"category": mod.LEVEL, "text": m["text"], "design_ref": m.get("design", "DESIGN.md §4 " + pid)},
            "level_note": m["note"],
            "technique": m["technique"],
        }
    )

manifest = {
    "version": 1,
    "setup_cmd": "./setup.sh",
    "hooks": {
        "guard": "ODFDO_VERIF",
        "enable": "no hooks are compiled into /repo: monitors interpose on the public API from /verif at import time (PYTHONPATH=/repo/src:/verif:/verif/.deps), so checks always run /repo's current working tree as it stands; ODFDO_VERIF is reserved and currently guards nothing",
        "baseline_off_cmd": BASELINE_CMD.replace(" --junitxml=<file>", ""),
        "source_commits": [],
        "add_only": True,
    },
    "engines": [
        {
            "name": "vf",
            "path": "/verif/vf",
            "serves_properties": served,
            "kind_free_text": "runtime monitoring: generated/corpus workloads drive the real odfdo code in 16 sharded subprocesses while monitors (shadow reference models advanced in lock-step, invariants at quiescent points, independent lxml/zipfile readers of the produced XML/bytes, purity digests, icontract contracts on codecs) judge every step; sys.monitoring reach monitor proves the anchored mechanisms executed; three-valued verdicts",
        }
    ],
    "checks": checks,
    "not_applicable": na,
    "notes": "Exit 0 held / 1 VIOLATION (replay file written) / 2 INCONCLUSIVE (never on the unchanged tree). Known findings are listed in /verif/known_findings.txt by mechanism classifier; fixed: entries suppress nothing. VERIF_SEED and VERIF_TIER are honoured. VF_REPO=<dir> points the same machinery at a scratch copy for sensitivity runs (evidence then goes to .work/alt-evidence).",
}
json.dump(manifest, open(os.path.join(HERE, "MANIFEST.json"), "w"), indent=1)
print(f"MANIFEST.json: {len(checks)} checks, {len(na)} not_applicable")
try:
    import jsonschema  # only in the tooling venv

    jsonschema.validate(manifest, json.load(open("/root/.vp/MANIFEST.schema.json")))
    print("schema ok")
except ImportError:
    pass
