#!/bin/bash
# tools/sweep.sh <tier> <seed> [checks...] : run checks on /repo, append one line per check to validation/silence.md
TIER="$1"; SEED="$2"; shift 2
CHECKS="${@:-C01 C02 C03 C04 C05 C06 C07 C08 C09 C10 C11 C12 C13 C14 C15 C16 C17 C18 C19 C20}"
cd "$(dirname "$0")/.."
for c in $CHECKS; do
  out=$(./check $c --tier $TIER --seed $SEED 2>&1 | grep -v "^WARNING" | grep -E "^(C[0-9]+ |VIOLATION|INCONCLUSIVE)" | tr '\n' ' ' | cut -c1-600)
  echo "- $(date -u +%H:%M) head=$(git -C /repo rev-parse --short HEAD) $out" >> validation/silence.md
done
